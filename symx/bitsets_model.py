"""Symbolic stand-in for the third-party ``bitsets`` package: exactly the API surface concepts uses.

concepts' own modules are imported unmodified from /repo with ``sys.modules['bitsets']`` pointing here, so that
bitset values become z3 bit-vector proxies.  The model is validated against the real library on every run
(checks/selftest.py) -- it is an environment stub and part of every claim that uses it.
"""
import sys
import types
from itertools import combinations

import z3

from . import core
from .core import SymInt, SymBool, mkbool, tob, branch, oblige, _bv, _is_conc


class GuardedSeq:
    """Sequence of (guard, value): iterating natively forks per guard; the merge-interpreter iterates all items
    under their guards."""

    _symx_model = True

    def __init__(self, items):
        self.items = list(items)

    def _symx_truth(self):
        gs = [g for g, _ in self.items]
        if any(g is True for g in gs):
            return True
        gs = [g for g in gs if g is not False]
        return z3.Or(*gs) if gs else False

    def __repr__(self):
        return f'<guarded sequence of {len(self.items)}>'

    def guarded_items(self):
        return iter(self.items)

    def __iter__(self):
        for g, v in self.items:
            if isinstance(g, bool):
                if g:
                    yield v
            elif branch(g):
                yield v


def _guard(x):
    """python bool or z3 Bool for truthiness of x"""
    if core.is_symbolic(x):
        return tob(x)
    return bool(x)


class MemberBitsMeta(type):

    def _make_subclass(self, name, members, id=None, listcls=None, tuplecls=None):
        if hasattr(self, '_members'):
            raise RuntimeError(f'{self!r} attempt _make_subclass')
        dct = {'_members': members}
        if id:
            dct['_id'] = id
        cls = type(name, (self,), dct)
        for scls, attr in [(listcls, 'List'), (tuplecls, 'Tuple')]:
            if scls is not None:
                scls = scls._make_subclass(name, cls)
                setattr(cls, attr, scls)
        return cls

    def __init__(self, name, bases, dct):
        if not hasattr(self, '_members'):
            return
        self._len = len(self._members)
        if self._len + 2 > core.W:
            raise core.Inconclusive(f'bit-vector width {core.W} too small for {self._len} members')
        self._atoms = tuple(self.fromint(1 << i) for i in range(self._len))
        self._map = dict(zip(self._members, self._atoms))
        self.infimum = self.fromint(0)
        self.supremum = self.fromint((1 << self._len) - 1)
        if not hasattr(self, '_id'):
            self._id = id(self)

    def atomic(self, bitset):
        return GuardedSeq((_guard(bitset & a), a) for a in self._atoms)

    def inatomic(self, bitset):
        def neg(g):
            return (not g) if isinstance(g, bool) else z3.Not(g)
        return GuardedSeq((neg(_guard(bitset & a)), a) for a in self._atoms)

    def reduce_and(self, bitsets):
        inters = self.supremum.copy()
        for b in bitsets:
            inters &= b
        return self.frombitset(inters)

    def reduce_or(self, bitsets):
        union = self.infimum.copy()
        for b in bitsets:
            union |= b
        return self.frombitset(union)


class MemberBits(SymInt, metaclass=MemberBitsMeta):

    @classmethod
    def fromint(cls, x):
        self = object.__new__(cls)
        SymInt.__init__(self, x)
        return self

    frombitset = fromint

    @classmethod
    def frommembers(cls, members=()):
        return cls.fromint(sum(cls._map[m].e for m in set(members)))

    @classmethod
    def frombools(cls, bools=()):
        acc = 0
        sym = None
        for a, b in zip(cls._atoms, bools):
            if isinstance(b, SymBool):
                t = z3.If(b.e, z3.BitVecVal(a.e, core.W), z3.BitVecVal(0, core.W))
                sym = t if sym is None else (sym | t)
            elif isinstance(b, SymInt) and not _is_conc(b.e):
                t = z3.If(b.e != 0, z3.BitVecVal(a.e, core.W), z3.BitVecVal(0, core.W))
                sym = t if sym is None else (sym | t)
            elif b:
                acc |= a.e
        if sym is None:
            return cls.fromint(acc)
        return cls.fromint(sym | z3.BitVecVal(acc, core.W))

    def __init__(self, *a, **k):
        pass

    def __hash__(self):
        # bitset values are only ever keyed among themselves (extent -> concept): a constant hash turns dict
        # lookups into == chains that the explorer decides
        return 0

    def copy(self):
        return self

    @property
    def int(self):
        return SymInt(self.e)

    _int = int

    def _conc(self):
        """concrete int value if it can be had without forking, else None"""
        if _is_conc(self.e):
            return self.e
        cx = core.ctx()
        if cx is not None and cx.pinned is not None:
            v = z3.simplify(z3.substitute(self.e, *cx.pinned))
            if z3.is_bv_value(v):
                return v.as_signed_long()
        return None

    def iter_set(self):
        c = self._conc()
        for i in range(self._len):
            if (c >> i) & 1 if c is not None else self.bit(i):
                yield i

    _indexes = iter_set

    def members(self, as_set=False):
        r = [self._members[i] for i in self.iter_set()]
        return frozenset(r) if as_set else tuple(r)

    def bools(self):
        return tuple(self.bit(i) for i in range(self._len))

    def bits(self):
        return ''.join('1' if b else '0' for b in self.bools())

    def __repr__(self):
        return f'{self.__class__.__name__}<{self.e}>'

    def atoms(self, reverse=False):
        atoms = reversed(self._atoms) if reverse else self._atoms
        return GuardedSeq((_guard(self & a), a) for a in atoms)

    def inatoms(self, reverse=False):
        atoms = reversed(self._atoms) if reverse else self._atoms
        return GuardedSeq(((not g) if isinstance(g, bool) else z3.Not(g), a)
                          for g, a in ((_guard(self & a), a) for a in atoms))

    def powerset(self, start=None, excludestart=False):
        if start is None:
            base = 0
            atoms = list(self.atoms())
        else:
            if (self | start != self):
                raise ValueError(f'{start!r} is no subset of {self!r}')
            base = start.e if isinstance(start, SymInt) else int(start)
            atoms = list(self.fromint(self & ~start).atoms())
        if not excludestart:
            yield self.fromint(base)
        for k in range(1, len(atoms) + 1):
            for combo in combinations(atoms, k):
                v = base
                for a in combo:
                    v = v | a.e
                yield self.fromint(v)

    def _reinverted(self):
        n = self._len
        if _is_conc(self.e):
            r = 0
            for i in range(n):
                if not (self.e >> i) & 1:
                    r |= 1 << (n - 1 - i)
            return SymInt(r)
        bits = [~z3.Extract(i, i, self.e) for i in range(n)]  # bit i -> position n-1-i (Concat is MSB first)
        body = z3.Concat(*bits) if n > 1 else bits[0]
        return SymInt(z3.ZeroExt(core.W - n, body))

    def shortlex(self):
        return self.popcount(), self._reinverted()

    def longlex(self):
        return -self.popcount(), self._reinverted()

    def count(self, value=True):
        if value not in (True, False):
            raise ValueError(f'can only count True or False, not {value!r}')
        if value is False or (value == 0 and value is not True):
            # bin(self)[2:].count('0'): zeros below the highest set bit; bin(0) == '0b0' has one zero
            if _is_conc(self.e):
                return bin(self.e)[2:].count('0')
            r = self.bit_length() - self.popcount()
            return SymInt(z3.If(self.e == 0, z3.BitVecVal(1, core.W), _bv(r)))
        c = self.popcount()
        return c.e if _is_conc(c.e) else c

    def all(self):
        return self == self.supremum

    def any(self):
        return self != self.infimum


class Series(tuple):

    @classmethod
    def _make_subclass(cls, name, bitset_cls):
        if hasattr(cls, 'BitSet'):
            raise RuntimeError(f'{cls!r} attempt _make_subclass')
        return type(f'{name}{cls.__name__}', (cls,), {'BitSet': bitset_cls})

    @classmethod
    def frombitsets(cls, bitsets):
        return tuple.__new__(cls, bitsets)

    @classmethod
    def frommembers(cls, members):
        return cls.frombitsets(map(cls.BitSet.frommembers, members))

    @classmethod
    def frombools(cls, bools):
        return cls.frombitsets(map(cls.BitSet.frombools, bools))

    @classmethod
    def fromints(cls, ints):
        return cls.frombitsets(map(cls.BitSet.fromint, ints))

    def __getitem__(self, i):
        if isinstance(i, SymInt):
            if _is_conc(i.e):
                i = i.e
            else:
                n = len(self)
                oblige(z3.And(i.e >= -n, i.e < n), 'IndexError: series index out of range')
                oblige(i.e >= 0, 'negative series index (wraps around)')
                r = _bv(tuple.__getitem__(self, n - 1).e)
                for k in range(n - 2, -1, -1):
                    r = z3.If(i.e == k, _bv(tuple.__getitem__(self, k).e), r)
                return self.BitSet.fromint(r)
        return tuple.__getitem__(self, i)

    def bools(self):
        return [b.bools() for b in self]

    def members(self, as_set=False):
        return [b.members(as_set) for b in self]

    def bits(self):
        return [b.bits() for b in self]

    def ints(self):
        return [b.int for b in self]

    def index_sets(self, as_set=False):
        indexes = frozenset if as_set else tuple
        return [indexes(b.iter_set()) for b in self]

    def reduce_and(self):
        return self.BitSet.reduce_and(self)

    def reduce_or(self):
        return self.BitSet.reduce_or(self)

    def __repr__(self):
        return f'{self.__class__.__name__}({tuple(self)!r})'


class Tuple(Series):
    _series = 'Tuple'


def bitset(name, members, base=MemberBits, list=False, tuple=False):
    if not name:
        raise ValueError(f'empty bitset name: {name!r}')
    if not hasattr(members, '__getitem__') or not hasattr(members, '__len__'):
        raise ValueError(f'non-sequence bitset members: {members!r}')
    if not len(members):
        raise ValueError(f'less than one bitset member: {members!r}')
    if len(set(members)) != len(members):
        raise ValueError(f'bitset members contains duplicates: {members!r}')
    if list:
        raise core.Inconclusive('unsupported: bitset list series')
    tuplecls = {False: None, True: Tuple}.get(tuple, tuple)
    return base._make_subclass(name, members, listcls=None, tuplecls=tuplecls)


_REGISTRY = {}


def _meta_bitset(name, members, id, basecls, listcls, tuplecls):
    # like the real library: classes created with an explicit id are kept in a registry and reused
    if not isinstance(id, int):
        raise RuntimeError(f'non-integer id: {id!r}')
    key = (name, members, id, core.W)
    if key not in _REGISTRY:
        _REGISTRY[key] = basecls._make_subclass(name, members, id, listcls, tuplecls)
    return _REGISTRY[key]


def install():
    """Install as ``bitsets`` in sys.modules (must happen before concepts is imported)."""
    if 'concepts' in sys.modules:
        raise RuntimeError('concepts already imported with the real bitsets')
    pkg = types.ModuleType('bitsets')
    bases = types.ModuleType('bitsets.bases')
    series = types.ModuleType('bitsets.series')
    meta = types.ModuleType('bitsets.meta')
    bases.MemberBits = MemberBits
    bases.BitSet = MemberBits
    series.Tuple = Tuple
    meta.bitset = _meta_bitset
    pkg.bases, pkg.series, pkg.meta, pkg.bitset = bases, series, meta, bitset
    pkg.__version__ = 'symbolic-model'
    pkg.__symx_model__ = True
    sys.modules['bitsets'] = pkg
    sys.modules['bitsets.bases'] = bases
    sys.modules['bitsets.series'] = series
    sys.modules['bitsets.meta'] = meta
