"""Environment model for hash randomisation: every set/frozenset built by repository code iterates in an order chosen
by the explorer (a fresh bounded solver variable per choice, see core.choose).  Installed by a load-time AST
transform of the repository modules (set displays, set comprehensions and the names ``set``/``frozenset`` are
redirected to the models); no file in /repo is edited and the transform is regenerated from the current source at
every run.  The real ``bitsets`` package is used (concrete data)."""
import ast
import builtins
import importlib.abc
import importlib.machinery
import os
import sys

from . import core

FULL_PERMUTATIONS_UPTO = 3
STATS = {'sets_iterated': 0, 'max_size': 0}


def _order(items):
    """explorer-chosen iteration order: every permutation for small sets, rotations x reversal beyond"""
    items = sorted(items, key=repr)
    k = len(items)
    if core.CTX is None or k < 2:
        return items
    STATS['sets_iterated'] += 1
    STATS['max_size'] = max(STATS['max_size'], k)
    if k <= FULL_PERMUTATIONS_UPTO:
        out = []
        pool = list(items)
        while pool:
            out.append(pool.pop(core.choose(len(pool), 'order')))
        return out
    r = core.choose(k, 'rot')
    out = items[r:] + items[:r]
    if core.choose(2, 'rev'):
        out.reverse()
    return out


class _Mixin:
    __slots__ = ()

    def __iter__(self):
        key = frozenset(super().__iter__())
        cache = _ORDER_CACHE.get(id(self))
        if cache is None or cache[0] != key or cache[2] is not core.CTX:
            cache = (key, _order(list(super().__iter__())), core.CTX, self)
            _ORDER_CACHE[id(self)] = cache
        return iter(list(cache[1]))

    def __repr__(self):
        name = type(self).__mro__[2].__name__
        items = ', '.join(map(repr, self))
        if name == 'set':
            return '{' + items + '}' if len(self) else 'set()'
        return f'frozenset({{{items}}})' if len(self) else 'frozenset()'

    def copy(self):
        return type(self)(super().__iter__())


_ORDER_CACHE = {}


def _wrap(cls, base):
    def w(name):
        def f(self, *others):
            r = getattr(base, name)(self, *others)
            return cls(base.__iter__(r)) if type(r) is base else r
        f.__name__ = name
        return f
    for n in ('__and__', '__or__', '__sub__', '__xor__', '__rand__', '__ror__', '__rsub__', '__rxor__',
              'union', 'intersection', 'difference', 'symmetric_difference'):
        setattr(cls, n, w(n))


class NondetSet(_Mixin, set):
    def pop(self):
        for x in self:
            set.remove(self, x)
            return x
        raise KeyError('pop from an empty set')


class NondetFrozenSet(_Mixin, frozenset):
    pass


_wrap(NondetSet, set)
_wrap(NondetFrozenSet, frozenset)
NondetSet.__hash__ = None


class _Transformer(ast.NodeTransformer):
    def __init__(self):
        self.sites = 0

    def visit_Set(self, node):
        self.generic_visit(node)
        self.sites += 1
        return ast.copy_location(ast.Call(ast.Name('__symx_set__', ast.Load()),
                                          [ast.List(node.elts, ast.Load())], []), node)

    def visit_SetComp(self, node):
        self.generic_visit(node)
        self.sites += 1
        return ast.copy_location(ast.Call(ast.Name('__symx_set__', ast.Load()),
                                          [ast.GeneratorExp(node.elt, node.generators)], []), node)

    def visit_Name(self, node):
        if isinstance(node.ctx, ast.Load) and node.id in ('set', 'frozenset'):
            self.sites += 1
            return ast.copy_location(ast.Name(f'__symx_{node.id}__', ast.Load()), node)
        return node


SITES = {}


class _Loader(importlib.machinery.SourceFileLoader):
    def get_code(self, fullname):
        path = self.get_filename(fullname)
        data = self.get_data(path)
        tree = ast.parse(data, path)
        tr = _Transformer()
        tree = tr.visit(tree)
        ast.fix_missing_locations(tree)
        SITES[fullname] = tr.sites
        return compile(tree, path, 'exec', dont_inherit=True)


class _Finder(importlib.abc.MetaPathFinder):
    def __init__(self, repo):
        self.repo = repo

    def find_spec(self, fullname, path, target=None):
        if fullname != 'concepts' and not fullname.startswith('concepts.'):
            return None
        spec = importlib.machinery.PathFinder.find_spec(fullname, [self.repo] if path is None else path)
        if spec is not None and isinstance(spec.loader, importlib.machinery.SourceFileLoader):
            spec.loader = _Loader(spec.loader.name, spec.loader.path)
        return spec


def load_concepts(repo):
    """import concepts from ``repo`` through the set-model transform, with the real bitsets"""
    if 'concepts' in sys.modules:
        if getattr(sys.modules['concepts'], '__symx_nondet__', False):
            return sys.modules['concepts']
        raise RuntimeError('concepts already imported without the transform')
    builtins.__symx_set__ = NondetSet
    builtins.__symx_frozenset__ = NondetFrozenSet
    sys.dont_write_bytecode = True
    sys.meta_path.insert(0, _Finder(repo))
    import concepts
    assert os.path.realpath(concepts.__file__).startswith(os.path.realpath(repo) + os.sep), concepts.__file__
    concepts.__symx_nondet__ = True
    return concepts
