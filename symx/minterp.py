"""Merge-interpreter: runs a live Python function object of the repository from its AST with *state merging*
instead of forking at symbolic conditions (if / while / for over guarded sequences / and / or / not / chained
comparisons / conditional expressions / comprehension filters / yield).

Only a subset of Python is supported; anything else raises ``Unsupported`` (an ``Inconclusive``), never a silent
skip.  Loops are unrolled up to a bound with an *unwinding assertion* (recorded as an obligation), or summarised by
a registered loop invariant (one inductive step of the real loop body, see ``exec_while_inv``).
"""
import ast
import builtins
import inspect
import operator
import textwrap

import z3

from . import core
from .core import SymBool, SymInt, mkbool, ite, ctx, is_symbolic
from .bitsets_model import GuardedSeq


class Unsupported(core.Inconclusive):
    pass


class _Unbound:
    def __repr__(self):
        return '<unbound>'


UNBOUND = _Unbound()


class _Maybe:
    """local bound only under ``cond`` (assigned on some merged paths): reading it obliges ``cond``"""

    def __init__(self, value, cond):
        self.value, self.cond = value, cond

_AST_CACHE = {}

BINOPS = {ast.BitAnd: operator.and_, ast.BitOr: operator.or_, ast.BitXor: operator.xor, ast.Add: operator.add,
          ast.Sub: operator.sub, ast.LShift: operator.lshift, ast.RShift: operator.rshift, ast.Mult: operator.mul,
          ast.Mod: operator.mod, ast.FloorDiv: operator.floordiv}


def _in(a, b):
    if getattr(b, '_symx_model', False):
        return b.__contains__(a)
    return a in b


def _not_in(a, b):
    t = truth(_in(a, b))
    return (not t) if isinstance(t, bool) else mkbool(z3.Not(t))


INPLACE = {ast.BitAnd: operator.iand, ast.BitOr: operator.ior, ast.BitXor: operator.ixor, ast.Add: operator.iadd,
           ast.Sub: operator.isub, ast.LShift: operator.ilshift, ast.RShift: operator.irshift,
           ast.Mult: operator.imul}
CMPOPS = {ast.Eq: operator.eq, ast.NotEq: operator.ne, ast.Lt: operator.lt, ast.LtE: operator.le,
          ast.Gt: operator.gt, ast.GtE: operator.ge, ast.Is: operator.is_, ast.IsNot: operator.is_not,
          ast.In: _in, ast.NotIn: _not_in}

MERGE_FUNCS = set()      # code objects registered for (recursive) interpretation
SET_FACTORY = None       # builds the value of a set comprehension from guarded items
BUILTIN_MODELS = {}      # builtin -> model, applied when the first argument is a model object
MAX_UNROLL = 400
LOOP_BOUNDS = {}         # (function name, index of while loop) -> fn(frame) -> int
LOOP_INVARIANTS = {}     # (function name, index of while loop) -> fn(locals, entry_locals, frame) -> z3 Bool
MUTATORS = {'add', 'remove', 'discard', 'append', 'pop', 'insert', 'update', 'clear', 'replace', 'move', 'extend',
            'sort', 'difference_update', 'intersection_update', 'setdefault', 'popitem', 'reverse'}
ENCODED = {}             # qualified name -> source hash, for the evidence
REPO_PREFIX = None       # set by the harness: plain functions of the repository are interpreted, not run natively,
#                          when they are called under a symbolic guard or with symbolic arguments


def register(fn):
    fn = getattr(fn, '__func__', fn)
    MERGE_FUNCS.add(fn.__code__)
    return fn


def register_class(cls):
    for name, f in vars(cls).items():
        if isinstance(f, property):
            if f.fget is not None:
                register(f.fget)
            continue
        f = getattr(f, '__func__', f)
        if inspect.isfunction(f):
            if '__class__' in f.__code__.co_freevars:   # zero-argument super(): run natively
                continue
            register(f)


def get_def(fn):
    code = fn.__code__
    if code in _AST_CACHE:
        return _AST_CACHE[code]
    src = textwrap.dedent(inspect.getsource(fn))
    tree = ast.parse(src)
    node = tree.body[0]
    if not isinstance(node, ast.FunctionDef):
        raise Unsupported(f'not a plain function: {fn!r}')
    is_gen = any(isinstance(n, (ast.Yield, ast.YieldFrom)) for n in ast.walk(node))
    for k, w in enumerate(n for n in ast.walk(node) if isinstance(n, ast.While)):
        w._loop_idx = k
    _AST_CACHE[code] = (node, is_gen)
    import hashlib
    ENCODED[f'{fn.__module__}.{fn.__qualname__}'] = hashlib.sha256(src.encode()).hexdigest()[:12]
    return node, is_gen


class Return(BaseException):
    def __init__(self, value):
        self.value = value


class ContinueLoop(BaseException):
    pass


class BreakLoop(BaseException):
    pass


class Frame:
    def __init__(self, fn, args, kwargs):
        self.fn = fn
        self.node, self.is_gen = get_def(fn)
        self.locals = {}
        self.closure = {}
        if fn.__closure__:
            for name, cell in zip(fn.__code__.co_freevars, fn.__closure__):
                self.closure[name] = cell
        self.globals = fn.__globals__
        ba = inspect.signature(fn).bind(*args, **kwargs)
        ba.apply_defaults()
        self.locals.update(ba.arguments)
        self.out = []
        self.loops = []        # innermost last: {'cont': False|z3, 'brk': False|z3, 'depth': int}
        self.ret = False       # False or z3 Bool: a return was executed under a symbolic guard
        self.returns = []      # [(guard, value)]

    def lookup(self, name):
        if name in self.locals:
            v = self.locals[name]
            if v is UNBOUND:
                raise UnboundLocalError(name)
            if isinstance(v, _Maybe):
                core.oblige(v.cond, f'UnboundLocalError: local {name!r} read where it may be unbound')
                return v.value
            return v
        if name in self.closure:
            return self.closure[name].cell_contents
        if name in self.globals:
            return self.globals[name]
        try:
            return getattr(builtins, name)
        except AttributeError:
            raise NameError(name)


def call(fn, *args, **kwargs):
    """Interpret the real function object ``fn`` on (possibly symbolic) arguments."""
    if inspect.ismethod(fn):
        args = (fn.__self__,) + tuple(args)
        fn = fn.__func__
    fr = Frame(fn, args, kwargs)
    fr.guard_depth = len(ctx().guard)
    try:
        exec_block(fr, fr.node.body)
        rv = None
    except Return as r:
        rv = r.value
        if fr.returns:
            fr.returns.append((True, rv))
    if fr.is_gen:
        return GuardedSeq(fr.out)
    if fr.returns:
        # returns executed under symbolic guards: merge the values; falling off the end (implicit None) must be
        # impossible unless the last return is unconditional
        guards = [g for g, _ in fr.returns]
        if guards[-1] is not True:
            core.oblige(z3.Or(*guards), f'{fn.__qualname__}: some path falls off the end while others return a value')
        rv = fr.returns[-1][1]
        for g, v in reversed(fr.returns[:-1]):
            try:
                rv = ite(g, v, rv)
            except core.Unmergeable as e:
                raise Unsupported(f'unmergeable return values in {fn.__qualname__}: {e}')
    return rv


def truth(v):
    """-> python bool or z3 Bool"""
    if isinstance(v, SymBool):
        return v.e
    if isinstance(v, SymInt):
        if isinstance(v.e, int):
            return bool(v.e)
        return v.e != 0
    t = getattr(v, '_symx_truth', None)
    if t is not None:
        r = t()
        if isinstance(r, bool):
            return r
        r = z3.simplify(r)
        return True if z3.is_true(r) else False if z3.is_false(r) else r
    return bool(v)


def _flags(fr):
    fl = [fr.ret] if fr.ret is not False else []
    for lp in fr.loops:
        for k in ('cont', 'brk'):
            if lp[k] is not False:
                fl.append(lp[k])
    return fl


def exec_block(fr, stmts):
    cx = ctx()
    for s in stmts:
        fl = _flags(fr)
        if not fl:
            exec_stmt(fr, s)
            continue
        # a guarded return/break/continue happened earlier: the rest runs only where none of them did
        dead = z3.simplify(z3.Or(*fl))
        if z3.is_true(dead):
            return
        live = z3.Not(dead)
        base = dict(fr.locals)
        cx.guard.append(live)
        try:
            exec_stmt(fr, s)
        finally:
            cx.guard.pop()
        fr.locals = merge_locals(live, fr.locals, base)


def _rel_guard(cx, depth):
    gs = cx.guard[depth:]
    return z3.simplify(z3.And(*gs)) if gs else True


def _or(a, b):
    if a is False:
        return b
    return z3.Or(a, b)


def assign(fr, target, value):
    if isinstance(target, ast.Name):
        fr.locals[target.id] = value
    elif isinstance(target, (ast.Tuple, ast.List)):
        vals = list(value)
        if len(vals) != len(target.elts):
            raise ValueError(f'unpack: expected {len(target.elts)} values, got {len(vals)}')
        for t, v in zip(target.elts, vals):
            assign(fr, t, v)
    else:
        if ctx().guard:
            raise Unsupported('attribute/subscript store under symbolic guard')
        if isinstance(target, ast.Attribute):
            setattr(ev(fr, target.value), target.attr, value)
        elif isinstance(target, ast.Subscript):
            ev(fr, target.value)[ev(fr, target.slice)] = value
        else:
            raise Unsupported(ast.dump(target))


def merge_locals(c, a, b):
    out = {}
    for k in set(a) | set(b):
        va, vb = a.get(k, UNBOUND), b.get(k, UNBOUND)
        if va is vb:
            out[k] = va
            continue
        ca = z3.BoolVal(va is not UNBOUND) if not isinstance(va, _Maybe) else va.cond
        cb = z3.BoolVal(vb is not UNBOUND) if not isinstance(vb, _Maybe) else vb.cond
        xa = va.value if isinstance(va, _Maybe) else va
        xb = vb.value if isinstance(vb, _Maybe) else vb
        try:
            if xa is UNBOUND:
                val = xb
            elif xb is UNBOUND:
                val = xa
            else:
                val = ite(c, xa, xb)
        except core.Unmergeable as e:
            raise Unsupported(f'unmergeable local {k}: {e}')
        cond = z3.simplify(z3.If(c, ca, cb))
        out[k] = val if z3.is_true(cond) else _Maybe(val, cond)
    return out


def feasible(g):
    cx = ctx()
    return cx.check_fresh(z3.And(cx.cur_guard(), g))


def has_raise(s):
    return any(isinstance(n, ast.Raise) for n in ast.walk(s))


def exec_stmt(fr, s):
    cx = ctx()
    if isinstance(s, ast.Expr):
        if isinstance(s.value, ast.Constant):
            return
        ev(fr, s.value)
    elif isinstance(s, ast.Assign):
        v = ev(fr, s.value)
        for t in s.targets:
            assign(fr, t, v)
    elif isinstance(s, ast.AugAssign):
        cur = ev(fr, ast.Name(id=s.target.id, ctx=ast.Load())) if isinstance(s.target, ast.Name) else ev(fr, s.target)
        v = INPLACE[type(s.op)](cur, ev(fr, s.value))
        assign(fr, s.target, v)
    elif isinstance(s, ast.Return):
        val = ev(fr, s.value) if s.value is not None else None
        if fr.guard_depth == len(cx.guard):
            raise Return(val)
        g = _rel_guard(cx, fr.guard_depth)
        fr.returns.append((g, val))
        fr.ret = _or(fr.ret, g)
    elif isinstance(s, (ast.Continue, ast.Break)):
        if not fr.loops:
            raise Unsupported('break/continue outside an interpreted loop')
        lp = fr.loops[-1]
        if len(cx.guard) == lp['depth']:
            raise (ContinueLoop if isinstance(s, ast.Continue) else BreakLoop)()
        g = _rel_guard(cx, lp['depth'])
        key = 'cont' if isinstance(s, ast.Continue) else 'brk'
        lp[key] = _or(lp[key], g)
    elif isinstance(s, ast.Raise):
        if cx.guard:
            raise Unsupported('raise under symbolic guard')
        if s.exc is None:
            raise Unsupported('bare raise')
        raise ev(fr, s.exc)
    elif isinstance(s, ast.If):
        c = truth(ev(fr, s.test))
        if not isinstance(c, bool) and not cx.guard and has_raise(s):
            c = core.branch(c)
        if isinstance(c, bool):
            exec_block(fr, s.body if c else s.orelse)
            return
        base = dict(fr.locals)
        cx.guard.append(c)
        try:
            exec_block(fr, s.body)
        finally:
            cx.guard.pop()
        la = fr.locals
        fr.locals = dict(base)
        cx.guard.append(z3.Not(c))
        try:
            exec_block(fr, s.orelse)
        finally:
            cx.guard.pop()
        lb = fr.locals
        fr.locals = merge_locals(c, la, lb)
    elif isinstance(s, ast.While):
        exec_while(fr, s)
    elif isinstance(s, ast.For):
        if s.orelse:
            raise Unsupported('for-else')
        it = ev(fr, s.iter)
        items = it.guarded_items() if hasattr(it, 'guarded_items') else ((True, v) for v in it)
        lp = {'cont': False, 'brk': False, 'depth': len(cx.guard)}
        fr.loops.append(lp)
        try:
            for g, v in items:
                if isinstance(g, bool):
                    if not g:
                        continue
                    g = True
                conds = ([g] if g is not True else []) + ([z3.Not(lp['brk'])] if lp['brk'] is not False else [])
                base = dict(fr.locals)
                for c in conds:
                    cx.guard.append(c)
                lp['cont'] = False
                lp['depth'] = len(cx.guard)
                try:
                    assign(fr, s.target, v)
                    exec_block(fr, s.body)
                except ContinueLoop:
                    pass
                except BreakLoop:
                    if conds:
                        raise Unsupported('unconditional break inside a guarded iteration')
                    break
                finally:
                    for _ in conds:
                        cx.guard.pop()
                    lp['depth'] = len(cx.guard)
                if conds:
                    fr.locals = merge_locals(z3.And(*conds), fr.locals, base)
        finally:
            fr.loops.pop()
    elif isinstance(s, ast.Pass):
        pass
    elif isinstance(s, ast.Assert):
        t = truth(ev(fr, s.test))
        if isinstance(t, bool):
            if not t:
                raise AssertionError(ast.unparse(s.test))
        else:
            core.oblige(t, f'assert {ast.unparse(s.test)}')
    else:
        raise Unsupported(f'statement {type(s).__name__} in {fr.fn.__qualname__}')


def exec_while(fr, s):
    cx = ctx()
    if s.orelse:
        raise Unsupported('while-else')
    key = (fr.fn.__code__.co_name, s._loop_idx)
    inv_fn = LOOP_INVARIANTS.get(key)
    if inv_fn is not None:
        return exec_while_inv(fr, s, inv_fn)
    exits = []
    pushed = 0
    bound_fn = LOOP_BOUNDS.get(key)
    bound = bound_fn(fr) if bound_fn else None
    lp = {'cont': False, 'brk': False, 'depth': len(cx.guard)}
    fr.loops.append(lp)
    try:
        for it_no in range(MAX_UNROLL):
            lp['cont'] = False
            fl = _flags(fr)          # a guarded break of this loop, or a guarded return / outer break so far
            if fl:
                stop = z3.simplify(z3.Or(*fl))
                if z3.is_true(stop):
                    break
                cx.guard.append(z3.Not(stop))
                try:
                    c = truth(ev(fr, s.test))
                finally:
                    cx.guard.pop()
                c = z3.And(z3.Not(stop), z3.BoolVal(c) if isinstance(c, bool) else c)
                lp['brk'] = False      # folded into the iteration guard from here on
            else:
                c = truth(ev(fr, s.test))
            if isinstance(c, bool):
                if not c:
                    break
            else:
                c = z3.simplify(c)
                if z3.is_false(c):
                    break
                if not z3.is_true(c):
                    if bound is not None:
                        if it_no >= bound:
                            # unwinding assertion: the loop cannot run longer than the bound derived from the code
                            core.oblige(z3.Not(c), f'unwinding assertion {key[0]}#{key[1]} bound {bound}')
                            break
                        exits.append((z3.Not(c), dict(fr.locals)))
                    else:
                        exits.append((z3.Not(c), dict(fr.locals)))
                        if not feasible(c):
                            exits.pop()
                            break
                    cx.guard.append(c)
                    pushed += 1
            lp['depth'] = len(cx.guard)
            try:
                exec_block(fr, s.body)
            except ContinueLoop:
                pass
            except BreakLoop:
                break
        else:
            raise Unsupported('unwind limit')
    finally:
        for _ in range(pushed):
            cx.guard.pop()
        fr.loops.pop()
    cur = fr.locals
    for notc, snap in reversed(exits):
        cur = merge_locals(notc, snap, cur)
    fr.locals = cur


def assigned_names(stmts):
    out = set()
    for st in stmts:
        for n in ast.walk(st):
            if isinstance(n, (ast.Assign, ast.AugAssign)):
                for t in (n.targets if isinstance(n, ast.Assign) else [n.target]):
                    for x in ast.walk(t):
                        if isinstance(x, ast.Name):
                            out.add(x.id)
    return out


def exec_while_inv(fr, s, inv_fn):
    """Loop summarised by an invariant: oblige it on entry, havoc the assigned variables, assume invariant and
    loop condition, execute the REAL body once, oblige the invariant again; continue from invariant and not
    condition."""
    cx = ctx()
    entry = dict(fr.locals)
    core.oblige(inv_fn(fr.locals, entry, fr), f'loop invariant on entry ({fr.fn.__code__.co_name}#{s._loop_idx})')
    g = cx.cur_guard()
    for name in sorted(assigned_names(s.body)):
        fr.locals[name] = SymInt(cx.fresh(f'havoc_{name}', core.W))
    hav = dict(fr.locals)
    cx.assume(z3.Implies(g, inv_fn(hav, entry, fr)))
    c = truth(ev(fr, s.test))
    if isinstance(c, bool):
        raise Unsupported('concrete loop condition after havoc')
    cx.guard.append(c)
    lp = {'cont': False, 'brk': False, 'depth': len(cx.guard)}
    fr.loops.append(lp)
    try:
        try:
            exec_block(fr, s.body)
        except ContinueLoop:
            pass
        except BreakLoop:
            raise Unsupported('break in a loop summarised by an invariant')
        if lp['brk'] is not False:
            raise Unsupported('break in a loop summarised by an invariant')
        core.oblige(inv_fn(fr.locals, entry, fr),
                    f'loop invariant preserved ({fr.fn.__code__.co_name}#{s._loop_idx})')
    finally:
        fr.loops.pop()
        cx.guard.pop()
    fr.locals = hav
    cx.assume(z3.Implies(g, z3.Not(c)))


def comp_items(fr, gens, elt_fn, k=0, guards=()):
    """Yield (guard-or-True, value) for nested comprehension generators."""
    cx = ctx()
    if k == len(gens):
        g = z3.simplify(z3.And(*guards)) if guards else True
        if g is not True and z3.is_true(g):
            g = True
        if g is not True and z3.is_false(g):
            return
        yield g, elt_fn()
        return
    gen = gens[k]
    if gen.is_async:
        raise Unsupported('async comprehension')
    it = ev(fr, gen.iter)
    seq = it.guarded_items() if hasattr(it, 'guarded_items') else ((True, v) for v in it)
    for g0, v in seq:
        if isinstance(g0, bool):
            if not g0:
                continue
            g0 = True
        gs = list(guards)
        if g0 is not True:
            gs.append(g0)
        pushed = 0
        ok = True
        try:
            if g0 is not True:
                cx.guard.append(g0)
                pushed += 1
            assign(fr, gen.target, v)
            for cond in gen.ifs:
                t = truth(ev(fr, cond))
                if isinstance(t, bool):
                    if not t:
                        ok = False
                        break
                else:
                    gs.append(t)
                    cx.guard.append(t)
                    pushed += 1
            if ok:
                yield from comp_items(fr, gens, elt_fn, k + 1, tuple(gs))
        finally:
            for _ in range(pushed):
                cx.guard.pop()


def _call(fr, f, args, kwargs):
    cx = ctx()
    if args and f in BUILTIN_MODELS and getattr(args[0], '_symx_model', False):
        return BUILTIN_MODELS[f](*args, **kwargs)
    target = getattr(f, '__func__', f)
    code = getattr(target, '__code__', None)
    if code is not None and code in MERGE_FUNCS:
        if inspect.ismethod(f):
            args = [f.__self__] + list(args)
        return call(target, *args, **kwargs)
    if code is not None and REPO_PREFIX and code.co_filename.startswith(REPO_PREFIX) and inspect.isfunction(target) \
            and '__class__' not in code.co_freevars \
            and (cx.guard or any(is_symbolic(a) for a in list(args) + list(kwargs.values()))):
        if inspect.ismethod(f):
            args = [f.__self__] + list(args)
        return call(target, *args, **kwargs)
    if cx.guard:
        owner = getattr(f, '__self__', None)
        if owner is not None and not getattr(owner, '_symx_model', False) \
                and getattr(f, '__name__', '') in MUTATORS:
            raise Unsupported(f'native mutator {type(owner).__name__}.{f.__name__} under symbolic guard')
    return f(*args, **kwargs)


def ev(fr, e):
    cx = ctx()
    if isinstance(e, ast.Constant):
        return e.value
    if isinstance(e, ast.Name):
        return fr.lookup(e.id)
    if isinstance(e, ast.BinOp):
        return BINOPS[type(e.op)](ev(fr, e.left), ev(fr, e.right))
    if isinstance(e, ast.UnaryOp):
        v = ev(fr, e.operand)
        if isinstance(e.op, ast.Not):
            t = truth(v)
            return (not t) if isinstance(t, bool) else mkbool(z3.Not(t))
        if isinstance(e.op, ast.Invert):
            return ~v
        if isinstance(e.op, ast.USub):
            return -v
        raise Unsupported('unary +')
    if isinstance(e, ast.BoolOp):
        is_and = isinstance(e.op, ast.And)
        sym = None
        pushed = 0
        try:
            for i, sub in enumerate(e.values):
                v = ev(fr, sub)
                t = truth(v)
                last = i == len(e.values) - 1
                if sym is None:
                    if isinstance(t, bool):
                        if t != is_and or last:
                            return v
                        continue
                    sym = t
                else:
                    tz = z3.BoolVal(t) if isinstance(t, bool) else t
                    sym = z3.And(sym, tz) if is_and else z3.Or(sym, tz)
                if not last:
                    cx.guard.append(sym if is_and else z3.Not(sym))
                    pushed += 1
        finally:
            for _ in range(pushed):
                cx.guard.pop()
        # value of a symbolic and/or is only used for its truth in the supported subset
        return mkbool(sym)
    if isinstance(e, ast.Compare):
        left = ev(fr, e.left)
        acc = None
        for op, rhs in zip(e.ops, e.comparators):
            right = ev(fr, rhs)
            r = CMPOPS[type(op)](left, right)
            t = truth(r)
            if isinstance(t, bool):
                if not t:
                    return False
            else:
                acc = t if acc is None else z3.And(acc, t)
            left = right
        if acc is None:
            return True
        return mkbool(acc)
    if isinstance(e, ast.IfExp):
        c = truth(ev(fr, e.test))
        if isinstance(c, bool):
            return ev(fr, e.body if c else e.orelse)
        cx.guard.append(c)
        try:
            a = ev(fr, e.body)
        finally:
            cx.guard.pop()
        cx.guard.append(z3.Not(c))
        try:
            b = ev(fr, e.orelse)
        finally:
            cx.guard.pop()
        try:
            return ite(c, a, b)
        except core.Unmergeable as ex:
            raise Unsupported(f'unmergeable conditional expression: {ex}')
    if isinstance(e, ast.Tuple):
        return tuple(ev(fr, x) for x in e.elts)
    if isinstance(e, ast.List):
        return [ev(fr, x) for x in e.elts]
    if isinstance(e, ast.Dict):
        return {ev(fr, k): ev(fr, v) for k, v in zip(e.keys, e.values)}
    if isinstance(e, ast.Attribute):
        obj = ev(fr, e.value)
        prop = inspect.getattr_static(type(obj), e.attr, None)
        if isinstance(prop, property) and prop.fget is not None and prop.fget.__code__ in MERGE_FUNCS:
            return call(prop.fget, obj)
        return getattr(obj, e.attr)
    if isinstance(e, ast.Subscript):
        return ev(fr, e.value)[ev(fr, e.slice)]
    if isinstance(e, ast.Slice):
        return slice(ev(fr, e.lower) if e.lower else None, ev(fr, e.upper) if e.upper else None,
                     ev(fr, e.step) if e.step else None)
    if isinstance(e, ast.Call):
        f = ev(fr, e.func)
        args = []
        for a in e.args:
            if isinstance(a, ast.Starred):
                args.extend(ev(fr, a.value))
            else:
                args.append(ev(fr, a))
        kwargs = {}
        for k in e.keywords:
            if k.arg is None:
                kwargs.update(ev(fr, k.value))
            else:
                kwargs[k.arg] = ev(fr, k.value)
        return _call(fr, f, args, kwargs)
    if isinstance(e, (ast.SetComp, ast.ListComp, ast.GeneratorExp)):
        saved = dict(fr.locals)
        items = list(comp_items(fr, e.generators, lambda: ev(fr, e.elt)))
        fr.locals = saved
        symbolic = any(g is not True for g, _ in items)
        if isinstance(e, ast.SetComp):
            if SET_FACTORY is None:
                if symbolic:
                    raise Unsupported('symbolic set comprehension without SET_FACTORY')
                return {v for _, v in items}
            return SET_FACTORY(items)
        if not symbolic:
            return [v for _, v in items]
        if cx.guard:
            return GuardedSeq(items)
        return [v for g, v in items if g is True or core.branch(g)]
    if isinstance(e, ast.JoinedStr):
        parts = []
        for v in e.values:
            if isinstance(v, ast.Constant):
                parts.append(v.value)
            else:
                val = ev(fr, v.value)
                conv = {-1: format, 114: lambda x, spec='': format(repr(x), spec),
                        115: lambda x, spec='': format(str(x), spec)}[v.conversion]
                parts.append(conv(val, ev(fr, v.format_spec) if v.format_spec else ''))
        return ''.join(parts)
    if isinstance(e, ast.Yield):
        v = ev(fr, e.value) if e.value is not None else None
        gs = cx.guard[fr.guard_depth:]
        g = z3.simplify(z3.And(*gs)) if gs else True
        fr.out.append((g, v))
        return None
    raise Unsupported(f'expression {type(e).__name__} in {fr.fn.__qualname__}')
