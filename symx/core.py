"""symx core: re-execution path explorer + SymBool/SymInt proxies over z3 bit-vectors.

The explorer runs a Python callable once per feasible path.  Every truth test on a symbolic value calls
``branch`` which asks z3 which sides are feasible under the current path condition, records the decision and
continues; after the run the deepest decision with an unexplored alternative is flipped and the callable is
re-executed (decision prefix replay).  When the search ends the explored path conditions partition the input
space.  Control flow never depends on a solver *model* (only on sat/unsat answers), so a prefix replays
identically in another process; this is what the parallel driver relies on.
"""
import time
import z3

W = 16  # bit-vector width (signed window for Python ints); set via set_width()

QUERY_TIMEOUT_MS = 600_000


def set_width(w):
    global W
    W = w


class Inconclusive(Exception):
    """solver unknown / timeout / unsupported construct: never success, never a violation"""


class CutPath(BaseException):
    """raised by branch() when the split depth of the parallel driver is reached"""


class Stats:
    def __init__(self):
        self.paths = 0
        self.decisions = 0
        self.forks = 0
        self.checks = 0
        self.fresh_checks = 0
        self.tsolve = 0.0
        self.obligations = 0
        self.max_depth = 0

    def add(self, o):
        for k, v in o.items() if isinstance(o, dict) else vars(o).items():
            if k == 'max_depth':
                self.max_depth = max(self.max_depth, v)
            else:
                setattr(self, k, getattr(self, k) + v)

    def asdict(self):
        d = dict(vars(self))
        d['tsolve'] = round(d['tsolve'], 3)
        return d


STATS = Stats()


class Ctx:
    def __init__(self, decisions, max_depth=None):
        self.solver = z3.Solver()
        self.solver.set('timeout', QUERY_TIMEOUT_MS)
        self.pc = []              # asserted path condition (list of z3 Bool)
        self.cache = {}
        self.decisions = decisions   # recorded FORKS only: list of [choice(bool), flippable(bool)]
        self.witness = None          # a model of the current path condition (optimisation only) or None
        self.pos = 0
        self.errors = []          # (violating condition, message, len(pc) when it arose)
        self.guard = []           # stack of z3 Bool (merge-interpreter guards)
        self.max_depth = max_depth
        self.pinned = None        # list of (var, value) pairs once the harness pinned its inputs
        self.pin_cache = {}
        self.fresh_counter = 0
        self.notes = {}

    # -- path condition ---------------------------------------------------------------------------------
    def assume(self, *conds):
        for c in conds:
            if isinstance(c, bool):
                c = z3.BoolVal(c)
            self.pc.append(c)
            self.solver.add(c)
        self.witness = None

    def fresh(self, prefix, sort_width=None):
        self.fresh_counter += 1
        name = f'{prefix}!{self.fresh_counter}'
        if sort_width is None:
            return z3.Bool(name)
        return z3.BitVec(name, sort_width)

    # -- solver calls -----------------------------------------------------------------------------------
    def check(self, *assumptions):
        """incremental check (small fork-feasibility queries)"""
        t = time.time()
        r = self.solver.check(*assumptions)
        STATS.tsolve += time.time() - t
        STATS.checks += 1
        if r == z3.unknown:
            raise Inconclusive(f'solver unknown: {self.solver.reason_unknown()}')
        return r == z3.sat

    def model(self, *assumptions):
        if not self.check(*assumptions):
            return None
        return self.solver.model()

    def fresh_solver(self, upto=None):
        s = z3.SolverFor('QF_BV')
        s.set('timeout', QUERY_TIMEOUT_MS)
        s.add(*(self.pc if upto is None else self.pc[:upto]))
        return s

    def check_fresh(self, *assumptions, upto=None, want_model=False):
        """one-shot QF_BV solver over (a prefix of) the path condition plus assumptions"""
        t = time.time()
        s = self.fresh_solver(upto)
        s.add(*assumptions)
        r = s.check()
        STATS.tsolve += time.time() - t
        STATS.fresh_checks += 1
        if r == z3.unknown:
            raise Inconclusive(f'solver unknown: {s.reason_unknown()}')
        if want_model:
            return s.model() if r == z3.sat else None
        return r == z3.sat

    def failed_obligations(self, want_model=False):
        """side conditions (no overflow, index in range, key present, unwinding assertions) that can fail"""
        out = []
        groups = {}
        for c, msg, k in self.errors:
            groups.setdefault(k, []).append((c, msg))
        for k, items in groups.items():
            STATS.obligations += len(items)
            # one query per path-condition prefix: the disjunction of all violating conditions must be unsat
            if len(items) > 1 and not self.check_fresh(z3.Or(*[c for c, _ in items]), upto=k):
                continue
            for c, msg in items:
                m = self.check_fresh(c, upto=k, want_model=True)
                if m is not None:
                    out.append((msg, m) if want_model else msg)
        return out

    def cur_guard(self):
        if not self.guard:
            return z3.BoolVal(True)
        return z3.And(*self.guard) if len(self.guard) > 1 else self.guard[0]


CTX = None


def ctx():
    return CTX


def _pinned_value(cx, c):
    key = c.get_id()
    if key in cx.pin_cache:
        return cx.pin_cache[key][1]
    v = z3.simplify(z3.substitute(c, *cx.pinned))
    r = True if z3.is_true(v) else False if z3.is_false(v) else None
    cx.pin_cache[key] = (c, r)
    return r


def branch(cond):
    """Decide the truth of z3 Bool ``cond`` on the current path (fork if both sides are feasible)."""
    c = z3.simplify(cond)
    if z3.is_true(c):
        return True
    if z3.is_false(c):
        return False
    cx = CTX
    if cx.guard:
        raise Inconclusive('unsupported: fork under merge guard')
    if cx.pinned is not None:
        r = _pinned_value(cx, c)
        if r is not None:
            return r
    key = c.get_id()
    if key in cx.cache:
        return cx.cache[key][1]
    # Which sides are feasible is a semantic fact about (path condition, cond): it does not depend on how z3 happens
    # to order the operands of this particular AST, so re-executions classify every branch identically.  Only genuine
    # forks are recorded and replayed; one-sided branches are re-derived.  A witness model of the path condition saves
    # one of the two solver calls (it never influences the outcome).
    w = cx.witness
    if w is None:
        if not cx.check():
            raise Inconclusive('infeasible path condition')
        w = cx.witness = cx.solver.model()
    wv = z3.is_true(w.eval(c, model_completion=True))
    other_model = None
    if wv:
        can_t = True
        can_f = cx.check(z3.Not(c))
        if can_f:
            other_model = cx.solver.model()
    else:
        can_f = True
        can_t = cx.check(c)
        if can_t:
            other_model = cx.solver.model()
    STATS.decisions += 1
    if can_t and can_f:
        if cx.pos < len(cx.decisions):
            choice = cx.decisions[cx.pos][0]
        else:
            if cx.max_depth is not None and len(cx.decisions) >= cx.max_depth:
                raise CutPath()
            choice = True
            cx.decisions.append([True, True])
            STATS.forks += 1
        cx.pos += 1
    else:
        choice = bool(can_t)
    keep = w if choice == wv else other_model
    cx.assume(c if choice else z3.Not(c))
    cx.witness = keep
    cx.cache[key] = (c, choice)
    return choice


def choose(k, tag='nd'):
    """Solver-chosen integer in range(k): a fresh bounded variable, concretised by branching."""
    if k <= 1:
        return 0
    cx = CTX
    bits = max(1, (k - 1).bit_length())
    v = cx.fresh(tag, bits)
    cx.assume(z3.ULT(v, k) if k < (1 << bits) else z3.BoolVal(True))
    for j in range(k - 1):
        if branch(v == j):
            return j
    return k - 1


def oblige(cond, msg):
    """Record a side condition that must hold whenever this point is reached (checked at path end)."""
    if isinstance(cond, bool):
        if cond:
            return
        cond = z3.BoolVal(False)
    c = z3.simplify(cond)
    if z3.is_true(c):
        return
    CTX.errors.append((z3.And(CTX.cur_guard(), z3.Not(c)), msg, len(CTX.pc)))


def pin(variables):
    """Fork until every given Bool variable has a definite value, then switch to pinned evaluation:
    from here on conditions over the pinned variables are evaluated by substitution, without solver calls."""
    cx = CTX
    pairs = []
    for v in variables:
        pairs.append((v, z3.BoolVal(branch(v))))
    cx.pinned = (cx.pinned or []) + pairs
    cx.pin_cache = {}
    return [z3.is_true(b) for _, b in pairs]


def explore(fn, prefix=(), max_depth=None, max_paths=None):
    """Run fn() once per feasible path below the forced decision ``prefix``; yields (value, ctx, status).

    status is 'done' or 'cut' (max_depth reached; value is then the tuple of decisions taken, to be handed to a
    worker as its prefix)."""
    global CTX
    decisions = [[bool(c), False] for c in prefix]
    npaths = 0
    while True:
        cx = Ctx(decisions, max_depth)
        CTX = cx
        try:
            try:
                val = fn()
                status = 'done'
            except CutPath:
                val = tuple(d[0] for d in decisions)
                status = 'cut'
        finally:
            CTX = None
        if cx.pos < len(decisions) and status == 'done':
            raise Inconclusive('decision prefix not consumed on replay (non-deterministic harness)')
        npaths += 1
        if status == 'done':
            STATS.paths += 1
            STATS.max_depth = max(STATS.max_depth, len(decisions))
        yield val, cx, status
        while decisions and not decisions[-1][1]:
            decisions.pop()
        if not decisions:
            return
        decisions[-1] = [not decisions[-1][0], False]
        if max_paths and npaths >= max_paths:
            return


# -------------------------------------------------------------------------------------------------------

def _bv(x):
    if isinstance(x, SymInt):
        x = x.e
    if isinstance(x, SymBool):
        return z3.If(x.e, z3.BitVecVal(1, W), z3.BitVecVal(0, W))
    if isinstance(x, bool):
        x = int(x)
    if isinstance(x, int):
        if not -(1 << (W - 1)) <= x < (1 << (W - 1)):
            # only a problem if this point is reachable: obligation under the current guard (unsat = dead code)
            if CTX is None:
                raise Inconclusive(f'integer constant {x:#x} outside the {W}-bit window')
            oblige(False, f'int window: integer constant {x:#x} does not fit in {W} bits')
        return z3.BitVecVal(x, W)
    return x


def _is_conc(x):
    return isinstance(x, int)


class SymBool:
    __slots__ = ('e',)

    def __init__(self, e):
        self.e = e

    def __bool__(self):
        return branch(self.e)

    def __hash__(self):
        return hash(bool(self))

    def __eq__(self, other):
        if isinstance(other, (SymBool, bool)):
            return mkbool(self.e == tob(other))
        if isinstance(other, (SymInt, int)):
            return SymInt(_bv(self)) == other
        return NotImplemented

    def __ne__(self, other):
        r = self.__eq__(other)
        if r is NotImplemented:
            return r
        return (not r) if isinstance(r, bool) else mkbool(z3.Not(r.e))

    def __and__(self, other):
        if isinstance(other, (SymBool, bool)):
            return mkbool(z3.And(self.e, tob(other)))
        return SymInt(_bv(self)) & other
    __rand__ = __and__

    def __or__(self, other):
        if isinstance(other, (SymBool, bool)):
            return mkbool(z3.Or(self.e, tob(other)))
        return SymInt(_bv(self)) | other
    __ror__ = __or__

    def __xor__(self, other):
        if isinstance(other, (SymBool, bool)):
            return mkbool(z3.Xor(self.e, tob(other)))
        return SymInt(_bv(self)) ^ other
    __rxor__ = __xor__

    def __index__(self):
        return int(bool(self))

    __int__ = __index__

    # bool is an int in Python: arithmetic goes through the 0/1 integer value
    def _as_int(self):
        return SymInt(_bv(self))

    def __lshift__(self, o): return self._as_int() << o
    def __rlshift__(self, o): return o << self._as_int()
    def __rshift__(self, o): return self._as_int() >> o
    def __rrshift__(self, o): return o >> self._as_int()
    def __add__(self, o): return self._as_int() + o
    __radd__ = __add__
    def __sub__(self, o): return self._as_int() - o
    def __rsub__(self, o): return o - self._as_int()
    def __mul__(self, o): return self._as_int() * o
    __rmul__ = __mul__
    def __neg__(self): return -self._as_int()
    def __invert__(self): return ~self._as_int()
    def __lt__(self, o): return self._as_int() < o
    def __le__(self, o): return self._as_int() <= o
    def __gt__(self, o): return self._as_int() > o
    def __ge__(self, o): return self._as_int() >= o

    def __repr__(self):
        return f'SymBool({self.e})'


def tob(x):
    """z3 Bool for the truthiness of x."""
    if isinstance(x, SymBool):
        return x.e
    if isinstance(x, SymInt):
        if _is_conc(x.e):
            return z3.BoolVal(bool(x.e))
        return x.e != 0
    if z3.is_expr(x):
        return x
    return z3.BoolVal(bool(x))


def mkbool(e):
    if isinstance(e, bool):
        return e
    e = z3.simplify(e)
    if z3.is_true(e):
        return True
    if z3.is_false(e):
        return False
    return SymBool(e)


def is_symbolic(x):
    return isinstance(x, SymBool) or (isinstance(x, SymInt) and not _is_conc(x.e))


class SymInt:
    """Python int semantics on a W-bit signed window; ``e`` is a Python int or a z3 BitVecRef.

    Operations that could leave the window (+, -, unary -, <<) record a no-overflow obligation, so results agree
    with Python's unbounded integers whenever all obligations of the path are discharged."""

    def __init__(self, e):
        if isinstance(e, SymInt):
            e = e.e
        if isinstance(e, SymBool):
            e = _bv(e)
        if isinstance(e, bool):
            e = int(e)
        if not isinstance(e, int):
            e = z3.simplify(e)
            if z3.is_bv_value(e):
                e = e.as_signed_long()
        self.e = e

    def _mk(self, e):
        # like the real bitsets classes (int subclasses): operators return plain ints
        return SymInt(e)

    def _operand(self, other):
        if isinstance(other, SymBool):
            return _bv(other)
        if isinstance(other, SymInt):
            return other.e
        if isinstance(other, int):
            return int(other)
        return NotImplemented

    def _bin(self, other, f):
        o = self._operand(other)
        if o is NotImplemented:
            return NotImplemented
        if _is_conc(self.e) and _is_conc(o):
            return self._mk(f(self.e, o))
        return self._mk(f(_bv(self.e), _bv(o)))

    def __and__(self, o):
        oo = self._operand(o)
        if _is_conc(oo) and not _is_conc(self.e) and oo >= (1 << (W - 1)):
            # non-negative mask wider than the window (e.g. sys.maxsize): exact for non-negative values
            oblige(self.e >= 0, 'int window: wide mask applied to a negative value')
            return self._mk(self.e & z3.BitVecVal(oo & ((1 << (W - 1)) - 1), W))
        return self._bin(o, lambda a, b: a & b)
    __rand__ = __and__
    def __or__(self, o): return self._bin(o, lambda a, b: a | b)
    __ror__ = __or__
    def __xor__(self, o): return self._bin(o, lambda a, b: a ^ b)
    __rxor__ = __xor__

    def __add__(self, o):
        r = self._bin(o, lambda a, b: a + b)
        if r is not NotImplemented and not _is_conc(r.e):
            a, b = _bv(self), _bv(self._operand(o))
            oblige(z3.And(z3.BVAddNoOverflow(a, b, True), z3.BVAddNoUnderflow(a, b)), 'int window: add overflow')
        return r
    __radd__ = __add__

    def __sub__(self, o):
        r = self._bin(o, lambda a, b: a - b)
        if r is not NotImplemented and not _is_conc(r.e):
            a, b = _bv(self), _bv(self._operand(o))
            oblige(z3.And(z3.BVSubNoOverflow(a, b), z3.BVSubNoUnderflow(a, b, True)), 'int window: sub overflow')
        return r

    def __rsub__(self, o):
        return SymInt(o).__sub__(self)

    def __mul__(self, o):
        oo = self._operand(o)
        if oo is NotImplemented:
            return NotImplemented
        if _is_conc(self.e) and _is_conc(oo):
            return self._mk(self.e * oo)
        a, b = _bv(self), _bv(oo)
        oblige(z3.And(z3.BVMulNoOverflow(a, b, True), z3.BVMulNoUnderflow(a, b)), 'int window: mul overflow')
        return self._mk(a * b)
    __rmul__ = __mul__

    def __neg__(self):
        if _is_conc(self.e):
            return self._mk(-self.e)
        oblige(z3.BVSNegNoOverflow(self.e), 'int window: neg overflow')
        return self._mk(-self.e)

    def __pos__(self):
        return self._mk(self.e)

    def __invert__(self):
        return self._mk(~self.e)

    def __rshift__(self, o):
        oo = self._operand(o)
        if oo is NotImplemented:
            return NotImplemented
        if _is_conc(self.e) and _is_conc(oo):
            return self._mk(self.e >> oo)
        b = _bv(oo)
        oblige(b >= 0, 'negative shift count')
        # arithmetic shift by >= W gives 0 / -1 in z3 as in Python
        return self._mk(_bv(self.e) >> b)

    def __rrshift__(self, o):
        return SymInt(o).__rshift__(self)

    def __lshift__(self, o):
        oo = self._operand(o)
        if oo is NotImplemented:
            return NotImplemented
        if _is_conc(self.e) and _is_conc(oo):
            return self._mk(self.e << oo)
        a, b = _bv(self.e), _bv(oo)
        r = a << b
        oblige(z3.And(b >= 0, b < W, (r >> b) == a), 'int window: lshift overflow')
        return self._mk(r)

    def __rlshift__(self, o):
        return SymInt(o).__lshift__(self)

    def _cmp(self, other, f):
        o = self._operand(other)
        if o is NotImplemented:
            return NotImplemented
        if _is_conc(self.e) and _is_conc(o):
            return f(self.e, o)
        return mkbool(f(_bv(self.e), _bv(o)))

    def __eq__(self, o): return self._cmp(o, lambda a, b: a == b)
    def __ne__(self, o): return self._cmp(o, lambda a, b: a != b)
    def __lt__(self, o): return self._cmp(o, lambda a, b: a < b)
    def __le__(self, o): return self._cmp(o, lambda a, b: a <= b)
    def __gt__(self, o): return self._cmp(o, lambda a, b: a > b)
    def __ge__(self, o): return self._cmp(o, lambda a, b: a >= b)

    def __hash__(self):
        # plain symbolic ints meet concrete keys in repo dicts: concretise (forks) so lookups stay correct
        return hash(self.concretize())

    def __bool__(self):
        if _is_conc(self.e):
            return bool(self.e)
        return branch(self.e != 0)

    def bit_length(self):
        if _is_conc(self.e):
            return SymInt(self.e.bit_length())
        x = self.e
        ax = z3.If(x < 0, -x, x)
        oblige(z3.BVSNegNoOverflow(x), 'int window: bit_length of minimum')
        r = z3.BitVecVal(0, W)
        for k in range(1, W):
            r = z3.If(z3.UGE(ax, z3.BitVecVal(1 << (k - 1), W)), z3.BitVecVal(k, W), r)
        return SymInt(r)

    def popcount(self):
        if _is_conc(self.e):
            if self.e < 0:
                raise Inconclusive('popcount of negative')
            return SymInt(bin(self.e).count('1'))
        oblige(self.e >= 0, 'popcount of negative')
        s = z3.BitVecVal(0, W)
        for k in range(W - 1):
            s = s + z3.ZeroExt(W - 1, z3.Extract(k, k, self.e))
        return SymInt(s)

    def bit(self, k):
        """truth of bit k as bool/SymBool (no fork)."""
        if _is_conc(self.e):
            return bool((self.e >> k) & 1)
        return mkbool(z3.Extract(k, k, self.e) == 1)

    def __index__(self):
        return self.concretize()

    __int__ = __index__

    def concretize(self):
        if _is_conc(self.e):
            return self.e
        cx = CTX
        if cx is not None and cx.pinned is not None:
            v = z3.simplify(z3.substitute(self.e, *cx.pinned))
            if z3.is_bv_value(v):
                return v.as_signed_long()
        v = 0
        for k in range(W):
            if branch(z3.Extract(k, k, self.e) == 1):
                v |= 1 << k
        if v >= 1 << (W - 1):
            v -= 1 << W
        return v

    def __repr__(self):
        return f'{type(self).__name__}<{self.e}>'

    def __format__(self, spec):
        return format(self.concretize(), spec)

    # The real bitset values are ints: any other int API used by the code under test works on the concretised value
    # (forks over the feasible values; Inconclusive under a merge guard) -- correct, never silently skipped.
    def __getattr__(self, name):
        if name.startswith('__') or not hasattr(int, name):
            raise AttributeError(name)
        attr = getattr(int, name)
        if callable(attr):
            return lambda *a, **k: attr(self.concretize(), *a, **k)
        return getattr(self.concretize(), name)

    def _conc_bin(op):
        def f(self, other):
            o = other.concretize() if isinstance(other, SymInt) else int(bool(other)) if isinstance(other, SymBool) else other
            if not isinstance(o, (int, float)):
                return NotImplemented
            return op(self.concretize(), o)

        def r(self, other):
            if not isinstance(other, (int, float)):
                return NotImplemented
            return op(other, self.concretize())
        return f, r
    import operator as _op
    __mod__, __rmod__ = _conc_bin(_op.mod)
    __floordiv__, __rfloordiv__ = _conc_bin(_op.floordiv)
    __truediv__, __rtruediv__ = _conc_bin(_op.truediv)
    __pow__, __rpow__ = _conc_bin(_op.pow)
    __divmod__, __rdivmod__ = _conc_bin(divmod)
    del _conc_bin, _op

    def __abs__(self):
        return abs(self.concretize())

    def __float__(self):
        return float(self.concretize())

    def __round__(self, n=None):
        return round(self.concretize(), n)

    def __trunc__(self):
        return self.concretize()


class Unmergeable(Exception):
    pass


def ite(c, a, b):
    """merge two values under z3 Bool c."""
    if a is b:
        return a
    c = z3.simplify(c)
    if z3.is_true(c):
        return a
    if z3.is_false(c):
        return b
    if isinstance(a, tuple) and isinstance(b, tuple) and len(a) == len(b) and type(a) is type(b) is tuple:
        return tuple(ite(c, x, y) for x, y in zip(a, b))
    if isinstance(a, (SymBool, bool)) and isinstance(b, (SymBool, bool)):
        return mkbool(z3.If(c, tob(a), tob(b)))
    if isinstance(a, (SymInt, int)) and isinstance(b, (SymInt, int)) \
            and not isinstance(a, bool) and not isinstance(b, bool):
        ta, tb = type(a), type(b)
        r = z3.If(c, _bv(a), _bv(b))
        if ta is tb and issubclass(ta, SymInt) and ta is not SymInt:
            return ta.fromint(SymInt(r))
        return SymInt(r)
    m = getattr(a, '_symx_ite', None)
    if m is not None and type(a) is type(b):
        return m(c, b)
    try:
        same = a == b
    except Inconclusive:
        same = False
    if same is True:
        return a
    raise Unmergeable(f'{type(a).__name__} vs {type(b).__name__}')
