import z3
from . import core
from .core import SymBool, mkbool, tob, ctx, oblige


def _z(b):
    return b if not isinstance(b, bool) else z3.BoolVal(b)


class SymSet:
    """Finite set of concrete hashable elements with symbolic membership; guard-aware in-place updates."""
    _symx_model = True

    def __init__(self, m=None):
        self.m = dict(m or {})

    @classmethod
    def from_guarded(cls, items):
        self = cls()
        for g, v in items:
            old = self.m.get(v, False)
            self.m[v] = True if (g is True or old is True) else z3.simplify(z3.Or(_z(old), _z(g)))
        return self

    def _get(self, x):
        return self.m.get(x, False)

    def _set(self, x, val):
        cx = ctx()
        if cx.guard:
            g = cx.cur_guard()
            val = z3.simplify(z3.If(g, _z(val), _z(self._get(x))))
        self.m[x] = val

    def __contains__(self, x):
        v = self._get(x)
        return v if isinstance(v, bool) else mkbool(v)

    def add(self, x): self._set(x, True)
    def discard(self, x): self._set(x, False)

    def remove(self, x):
        oblige(_z(self._get(x)), f'KeyError {x!r}')
        self._set(x, False)

    def update(self, it):
        for x in it: self.add(x)

    def difference_update(self, it):
        for x in it: self.discard(x)

    def copy(self): return SymSet(self.m)

    def _other(self, o):
        if isinstance(o, SymSet): return o.m
        return {x: True for x in o}

    def _combine(self, o, f):
        om = self._other(o)
        out = {}
        for k in set(self.m) | set(om):
            v = z3.simplify(f(_z(self.m.get(k, False)), _z(om.get(k, False))))
            out[k] = True if z3.is_true(v) else False if z3.is_false(v) else v
        return out

    def __or__(self, o): return SymSet(self._combine(o, z3.Or))
    def __and__(self, o): return SymSet(self._combine(o, z3.And))
    def __xor__(self, o): return SymSet(self._combine(o, z3.Xor))
    def __sub__(self, o): return SymSet(self._combine(o, lambda a, b: z3.And(a, z3.Not(b))))

    def __ior__(self, o):
        for k, v in self._combine(o, z3.Or).items(): self._set(k, v)
        return self

    def __iand__(self, o):
        for k, v in self._combine(o, z3.And).items(): self._set(k, v)
        return self

    def __eq__(self, o):
        om = self._other(o)
        return mkbool(z3.And(*[_z(self.m.get(k, False)) == _z(om.get(k, False)) for k in set(self.m) | set(om)]))

    def __hash__(self): return 0

    def guarded_items(self):
        for k in sorted(self.m, key=repr):
            v = self.m[k]
            if v is False: continue
            yield (True if v is True else v), k

    def __iter__(self):
        for g, k in self.guarded_items():
            if g is True or core.branch(g):
                yield k

    def truth(self):
        return z3.Or(*[_z(v) for v in self.m.values()]) if self.m else z3.BoolVal(False)

    def __bool__(self):
        return core.branch(self.truth())
