"""Shared building blocks of the symbolic harnesses: loading concepts under the bitsets model, symbolic tables,
declarative FCA specification terms, kernel contracts and loop bounds."""
import hashlib
import inspect
import os
import sys

import z3

from . import core, bitsets_model, minterp
from .core import _bv

REPO = os.environ.get('VERIF_REPO', '/repo')

_loaded = {}


def load_concepts():
    """Import concepts from /repo's working tree with the symbolic bitsets model installed."""
    if 'concepts' in _loaded:
        return _loaded['concepts']
    bitsets_model.install()
    if REPO not in sys.path:
        sys.path.insert(0, REPO)
    import concepts
    if not os.path.realpath(concepts.__file__).startswith(os.path.realpath(REPO) + os.sep):
        raise core.Inconclusive(f'concepts imported from {concepts.__file__}, expected {REPO}')
    _loaded['concepts'] = concepts
    minterp.REPO_PREFIX = os.path.join(os.path.realpath(REPO), 'concepts') + os.sep
    from concepts import matrices
    _register_kernel_bounds()
    _patch_relation(matrices)
    return concepts


def source_hash(obj):
    try:
        src = inspect.getsource(obj)
    except (OSError, TypeError):
        return None
    return hashlib.sha256(src.encode()).hexdigest()[:12]


def encoded(*objs):
    """{qualified name: source hash} for the evidence (functions encoded by this run)"""
    out = {}
    for o in objs:
        o = getattr(o, '__func__', o)
        if isinstance(o, property):
            o = o.fget
        name = f'{getattr(o, "__module__", "?")}.{getattr(o, "__qualname__", getattr(o, "__name__", repr(o)))}'
        out[name] = source_hash(o)
    return out


# -- symbolic tables ------------------------------------------------------------------------------------

def names(n, m):
    return tuple(f'o{i}' for i in range(n)), tuple(f'p{j}' for j in range(m))


def cell_vars(n, m, tag='c'):
    return [[z3.Bool(f'{tag}_{i}_{j}') for j in range(m)] for i in range(n)]


def truthy(i, j):
    """the value standing for a cross at (i, j): contexts accept any cell by truthiness"""
    return (True, 2, 3)[(i + 2 * j) % 3]


def sym_rows(cells):
    """rows handed to Context/Relation: symbolic cells, represented by truthiness in three ways (bool; int 2 or 0;
    int 3 or 0) depending on the position; concrete crosses likewise"""
    out = []
    for i, row in enumerate(cells):
        r = []
        for j, c in enumerate(row):
            t = truthy(i, j)
            if z3.is_expr(c):
                r.append(core.SymBool(c) if t is True else
                         core.SymInt(z3.If(c, z3.BitVecVal(t, core.W), z3.BitVecVal(0, core.W))))
            else:
                r.append((t if c else (False if t is True else 0)))
        out.append(tuple(r))
    return out


def table_from_model(model, cells):
    return [[bool(z3.is_true(model.eval(c, model_completion=True))) if z3.is_expr(c) else bool(c) for c in row]
            for row in cells]


def set_width_for(n, m, extra=2):
    # at least 10 bits so that small integer constants of the code under test (+7, //8, 64 ...) fit the window
    core.set_width(max(max(n, m) + extra, 10))


# -- declarative specification terms (independent of the repository's algorithms) --------------------------

class Spec:
    """FCA by definition over the symbolic cells: rows[i] = intent of object i, cols[j] = extent of property j."""

    def __init__(self, cells):
        self.n = len(cells)
        self.m = len(cells[0]) if cells else 0
        W = core.W
        self.W = W
        self.full_o = (1 << self.n) - 1
        self.full_p = (1 << self.m) - 1

        def pack(bits):
            acc = z3.BitVecVal(0, W)
            for k, b in enumerate(bits):
                if z3.is_expr(b):
                    acc = acc | z3.If(b, z3.BitVecVal(1 << k, W), z3.BitVecVal(0, W))
                elif b:
                    acc = acc | z3.BitVecVal(1 << k, W)
            return z3.simplify(acc)
        self.rows = [pack(cells[i]) for i in range(self.n)]
        self.cols = [pack([cells[i][j] for i in range(self.n)]) for j in range(self.m)]

    def intent(self, e):
        """A' for a z3 bit-vector (or int) set of objects"""
        e = _bv(e)
        r = z3.BitVecVal(self.full_p, self.W)
        for i in range(self.n):
            r = r & z3.If(z3.Extract(i, i, e) == 1, self.rows[i], z3.BitVecVal(self.full_p, self.W))
        return r

    def extent(self, p):
        """B' for a z3 bit-vector (or int) set of properties"""
        p = _bv(p)
        r = z3.BitVecVal(self.full_o, self.W)
        for j in range(self.m):
            r = r & z3.If(z3.Extract(j, j, p) == 1, self.cols[j], z3.BitVecVal(self.full_o, self.W))
        return r

    def closure_o(self, e):
        return self.extent(self.intent(e))

    def closure_p(self, p):
        return self.intent(self.extent(p))

    def is_objset(self, e):
        return z3.ULE(_bv(e), z3.BitVecVal(self.full_o, self.W))

    def is_propset(self, p):
        return z3.ULE(_bv(p), z3.BitVecVal(self.full_p, self.W))

    def closed_o(self, e):
        return self.closure_o(e) == _bv(e)


def subset(a, b):
    a, b = _bv(a), _bv(b)
    return a & b == a


def popcount(x, nbits):
    x = _bv(x)
    s = z3.BitVecVal(0, core.W)
    for k in range(nbits):
        s = s + z3.ZeroExt(core.W - 1, z3.Extract(k, k, x))
    return s


def lexkey(x, nbits):
    """tie-break key of shortlex/longlex: positions compared from object 0; member first"""
    x = _bv(x)
    bits = [~z3.Extract(i, i, x) for i in range(nbits)]
    body = z3.Concat(*bits) if nbits > 1 else bits[0]
    return z3.ZeroExt(core.W - nbits, body)


def shortlex_lt(a, b, nbits):
    ca, cb = popcount(a, nbits), popcount(b, nbits)
    return z3.Or(ca < cb, z3.And(ca == cb, z3.ULT(lexkey(a, nbits), lexkey(b, nbits))))


# -- kernels ----------------------------------------------------------------------------------------------

def _register_kernel_bounds():
    lb = minterp.LOOP_BOUNDS
    lb[('prime', 0)] = lambda fr: len(fr.lookup('other'))
    lb[('double', 0)] = lambda fr: len(fr.lookup('other'))
    lb[('double', 1)] = lambda fr: len(fr.lookup('self'))
    lb[('doubleprime', 0)] = lambda fr: len(fr.lookup('other'))
    lb[('doubleprime', 1)] = lambda fr: len(fr.lookup('self'))


KERNEL_MODE = 'real'   # 'real': closures run natively (fork mode); 'merged': closures merge-interpreted;
#                        'contract': closures replaced by their declarative contract (after it was proven)


def set_kernel_mode(mode):
    global KERNEL_MODE
    assert mode in ('real', 'merged', 'contract')
    KERNEL_MODE = mode


def _contract(v, other, selfv):
    W = core.W
    Other, Self = other.BitSet, selfv.BitSet
    lo, ls = len(other), len(selfv)
    fo, fs = Other.supremum.e, Self.supremum.e

    def sp(x, seq, L, full):
        xe = x.e if isinstance(x, core.SymInt) else x
        if isinstance(xe, int):      # concrete argument: only the rows of its members matter
            r = full
            sym = None
            for i in range(L):
                if (xe >> i) & 1:
                    v = tuple.__getitem__(seq, i).e
                    if isinstance(v, int):
                        r &= v
                    else:
                        sym = v if sym is None else (sym & v)
            return r if sym is None else z3.BitVecVal(r, W) & sym
        r = z3.BitVecVal(full, W)
        for i in range(L):
            r = r & z3.If(z3.Extract(i, i, xe) == 1, _bv(tuple.__getitem__(seq, i).e), z3.BitVecVal(full, W))
        return r

    def prime(bitset):
        return Other.fromint(sp(bitset, other, lo, fo))

    def double(bitset):
        return Self.fromint(sp(sp(bitset, other, lo, fo), selfv, ls, fs))

    def doubleprime(bitset):
        p = sp(bitset, other, lo, fo)
        return Self.fromint(sp(p, selfv, ls, fs)), Other.fromint(p)
    return prime, double, doubleprime


def _merged(fn):
    def w(bitset):
        return minterp.call(fn, bitset)
    w.__name__ = fn.__name__
    w.__wrapped__ = fn
    return w


def _patch_relation(matrices):
    orig_new = matrices.Relation.__new__

    def patched_new(cls, *a, **k):
        self = orig_new(cls, *a, **k)
        x, y = self
        for v, other in ((x, y), (y, x)):
            v._real_kernels = (v.prime, v.double, v.doubleprime)
            if KERNEL_MODE == 'contract':
                fs = _contract(v, other, v)
            elif KERNEL_MODE == 'merged':
                fs = tuple(_merged(f) for f in v._real_kernels)
            else:
                continue
            for name, f in zip(('prime', 'double', 'doubleprime'), fs):
                setattr(v, name, f)
                setattr(v.BitSet, name, f)
        return self
    matrices.Relation.__new__ = patched_new


def real_kernels(vectors):
    """the closures created by the real Vectors._pair_with, whatever the kernel mode"""
    return dict(zip(('prime', 'double', 'doubleprime'), vectors._real_kernels))
