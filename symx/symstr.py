"""Symbolic strings for the text-format code (C12).

``SymStr`` is a string of *concrete length* whose characters are either concrete 1-character ``str`` objects or z3
bit-vectors (21 bits: a Unicode code point).  Every test the code under test makes on a character (is it the
separator?  is it white space?  is it equal to that other character?) is a solver decision (``core.branch``): forks
where both answers are feasible under the path condition, no fork otherwise.  One path of the real dumper/loader
therefore stands for every label text that is treated alike.

The repository's format modules run natively on these values.  Python's C string machinery cannot see through a
proxy, so the modules are loaded through an AST transform (regenerated from the working tree at every run; no file
in /repo is edited) that redirects exactly the constructs where a real ``str`` would swallow a proxy:
``a % b``, f-strings, ``x.join(...)``, ``x.format(...)``, ``a in b``, ``print`` and ``io.StringIO``.  Everything
else (``strip``, ``split``, ``partition``, slicing, iteration, ``==``, ``int()``, ``len()``, dict lookups by
character) is ordinary method dispatch on the proxy.  A proxy that reaches any other C boundary (``str()``,
``encode``, ``csv``, ``ast``) raises ``Inconclusive`` -- never a verdict.
"""
import ast
import builtins
import importlib.abc
import importlib.machinery
import io as _io
import os
import re
import string
import sys

import z3

from . import core

CW = 21
SPACES = [c for c in range(0x110000) if chr(c).isspace()]
INT_SPACES = [c for c in SPACES if c not in (0x1c, 0x1d, 0x1e, 0x1f)]   # what int() strips
LINEBREAKS = [c for c in range(0x110000) if len(('a' + chr(c) + 'b').splitlines()) == 2]
# characters a hash lookup can distinguish: every character of a string constant of the modules under test is added
# at load time (see _Loader); a symbolic character that is none of them hashes like a private-use representative
ALPHABET = set('X.|#!{} \n\r\t01')
OTHER = ''


def _ranges(codes):
    out = []
    for c in sorted(codes):
        if out and out[-1][1] == c - 1:
            out[-1][1] = c
        else:
            out.append([c, c])
    return out


def code(c):
    return z3.BitVecVal(ord(c), CW) if isinstance(c, str) else c


def in_set(c, codes):
    if isinstance(c, str):
        return ord(c) in codes
    return z3.Or(*[(c == lo) if lo == hi else z3.And(z3.UGE(c, lo), z3.ULE(c, hi)) for lo, hi in _ranges(codes)])


def is_space(c):
    return in_set(c, SPACES)


def valid_char(c):
    """a code point that can occur in a Python str and be written to a utf-8 file"""
    return z3.And(z3.ULE(c, 0x10FFFF), z3.Or(z3.ULT(c, 0xD800), z3.UGT(c, 0xDFFF)))


def ceq(a, b):
    if isinstance(a, str) and isinstance(b, str):
        return a == b
    return code(a) == code(b)


def decide(cond):
    if isinstance(cond, bool):
        return cond
    return core.branch(cond)


def conj(conds):
    conds = list(conds)
    if any(c is False for c in conds):
        return False
    conds = [c for c in conds if c is not True]
    if not conds:
        return True
    return z3.And(*conds) if len(conds) > 1 else conds[0]


def chars(s):
    if isinstance(s, SymStr):
        return s.ch
    if isinstance(s, str):
        return list(s)
    raise TypeError(f'expected a string, got {type(s).__name__}')


def mk(ch):
    ch = list(ch)
    if all(isinstance(c, str) for c in ch):
        return ''.join(ch)
    return SymStr(ch)


def is_sym(x):
    return isinstance(x, SymStr)


def has_sym(x, depth=3):
    if isinstance(x, SymStr):
        return True
    if depth and isinstance(x, (tuple, list)):
        return any(has_sym(y, depth - 1) for y in x)
    if depth and isinstance(x, dict):
        return any(has_sym(y, depth - 1) for y in x.values())
    return False


def eq_expr(a, b):
    """equality of two strings as a z3 Bool / Python bool"""
    ca, cb = chars(a), chars(b)
    if len(ca) != len(cb):
        return False
    return conj(ceq(x, y) for x, y in zip(ca, cb))


class SymStr:
    __slots__ = ('ch',)

    def __init__(self, ch):
        self.ch = list(ch)

    # -- basics -----------------------------------------------------------------------------------------
    def __len__(self):
        return len(self.ch)

    def __bool__(self):
        return bool(self.ch)

    def __iter__(self):
        return iter([mk([c]) for c in self.ch])

    def __getitem__(self, k):
        if isinstance(k, slice):
            return mk(self.ch[k])
        return mk([self.ch[k]])

    def __add__(self, o):
        if not isinstance(o, (str, SymStr)):
            return NotImplemented
        return mk(self.ch + chars(o))

    def __radd__(self, o):
        if not isinstance(o, str):
            return NotImplemented
        return mk(chars(o) + self.ch)

    def __mul__(self, k):
        return mk(self.ch * k)

    __rmul__ = __mul__

    def __eq__(self, o):
        if not isinstance(o, (str, SymStr)):
            return False
        e = eq_expr(self, o)
        return e if isinstance(e, bool) else core.mkbool(e)

    def __ne__(self, o):
        if not isinstance(o, (str, SymStr)):
            return True
        e = eq_expr(self, o)
        return (not e) if isinstance(e, bool) else core.mkbool(z3.Not(e))

    def _order(self, o, strict_less):
        raise core.Inconclusive('unsupported: ordering of symbolic strings')

    def __lt__(self, o): return self._order(o, True)
    def __le__(self, o): return self._order(o, True)
    def __gt__(self, o): return self._order(o, False)
    def __ge__(self, o): return self._order(o, False)

    def concretize(self):
        """decide every symbolic character against the hash alphabet; -> a real str in which every other character
        is rendered as the private-use representative"""
        out = []
        for c in self.ch:
            if isinstance(c, str):
                out.append(c)
                continue
            for a in sorted(ALPHABET):
                if decide(c == ord(a)):
                    out.append(a)
                    break
            else:
                out.append(OTHER)
        return ''.join(out)

    def __hash__(self):
        return hash(self.concretize())

    def __str__(self):
        raise core.Inconclusive('a symbolic string reached a C boundary (str())')

    def __repr__(self):
        return 'SymStr<' + ''.join(c if isinstance(c, str) else '?' for c in self.ch) + '>'

    def __format__(self, spec):
        return format_field(self, spec)

    def __int__(self):
        out = []
        for c in self.ch:
            if isinstance(c, str):
                out.append(c)
                continue
            for a in '0123456789 \n\t+-_':
                if decide(c == ord(a)):
                    out.append(a)
                    break
            else:
                if decide(in_set(c, INT_SPACES)):
                    out.append(' ')
                elif decide(z3.ULT(c, 128)):
                    out.append('?')     # any other ASCII character makes int() fail
                else:
                    raise core.Inconclusive('unsupported: int() of a symbolic non-ASCII character')
        return int(''.join(out))

    def __contains__(self, sub):
        return self.find(sub) >= 0

    def encode(self, *a, **k):
        raise core.Inconclusive('a symbolic string reached a C boundary (encode)')

    # -- searching --------------------------------------------------------------------------------------
    def _match(self, i, pat):
        if i < 0 or i + len(pat) > len(self.ch):
            return False
        return decide(conj(ceq(self.ch[i + k], p) for k, p in enumerate(pat)))

    def find(self, sub, start=0, end=None):
        pat = chars(sub)
        n = len(self.ch) if end is None else min(end, len(self.ch))
        i = max(start, 0)
        while i + len(pat) <= n:
            if self._match(i, pat):
                return i
            i += 1
        return -1

    def rfind(self, sub, start=0, end=None):
        pat = chars(sub)
        n = len(self.ch) if end is None else min(end, len(self.ch))
        i = n - len(pat)
        while i >= max(start, 0):
            if self._match(i, pat):
                return i
            i -= 1
        return -1

    def index(self, sub, *a):
        r = self.find(sub, *a)
        if r < 0:
            raise ValueError('substring not found')
        return r

    def count(self, sub):
        pat = chars(sub)
        if not pat:
            return len(self.ch) + 1
        i = k = 0
        while i + len(pat) <= len(self.ch):
            if self._match(i, pat):
                k += 1
                i += len(pat)
            else:
                i += 1
        return k

    def startswith(self, p, *a):
        if isinstance(p, tuple):
            return any(self.startswith(x) for x in p)
        return self._match(0, chars(p))

    def endswith(self, p, *a):
        if isinstance(p, tuple):
            return any(self.endswith(x) for x in p)
        return self._match(len(self.ch) - len(chars(p)), chars(p))

    # -- stripping --------------------------------------------------------------------------------------
    def _strippable(self, c, cs):
        if cs is None:
            return decide(is_space(c))
        return any(decide(ceq(c, x)) for x in chars(cs))

    def lstrip(self, cs=None):
        i = 0
        while i < len(self.ch) and self._strippable(self.ch[i], cs):
            i += 1
        return mk(self.ch[i:])

    def rstrip(self, cs=None):
        j = len(self.ch)
        while j > 0 and self._strippable(self.ch[j - 1], cs):
            j -= 1
        return mk(self.ch[:j])

    def strip(self, cs=None):
        i = 0
        while i < len(self.ch) and self._strippable(self.ch[i], cs):
            i += 1
        j = len(self.ch)
        while j > i and self._strippable(self.ch[j - 1], cs):
            j -= 1
        return mk(self.ch[i:j])

    # -- splitting --------------------------------------------------------------------------------------
    def split(self, sep=None, maxsplit=-1):
        if sep is None:
            out, cur = [], []
            i, n = 0, len(self.ch)
            while i < n:
                if decide(is_space(self.ch[i])):
                    if cur:
                        out.append(mk(cur))
                        cur = []
                        if 0 <= maxsplit <= len(out):
                            j = i
                            while j < n and decide(is_space(self.ch[j])):
                                j += 1
                            if j < n:
                                out.append(mk(self.ch[j:]).rstrip() if False else mk(self.ch[j:]))
                            return out
                else:
                    cur.append(self.ch[i])
                i += 1
            if cur:
                out.append(mk(cur))
            return out
        pat = chars(sep)
        if not pat:
            raise ValueError('empty separator')
        out, start, i = [], 0, 0
        while i + len(pat) <= len(self.ch) and (maxsplit < 0 or len(out) < maxsplit):
            if self._match(i, pat):
                out.append(mk(self.ch[start:i]))
                i += len(pat)
                start = i
            else:
                i += 1
        out.append(mk(self.ch[start:]))
        return out

    def rsplit(self, sep=None, maxsplit=-1):
        if maxsplit < 0:
            return self.split(sep)
        if sep is None:
            raise core.Inconclusive('unsupported: rsplit(None, maxsplit) on a symbolic string')
        pat = chars(sep)
        out, end, i = [], len(self.ch), len(self.ch) - len(pat)
        while i >= 0 and len(out) < maxsplit:
            if self._match(i, pat):
                out.append(mk(self.ch[i + len(pat):end]))
                end = i
                i -= len(pat)
            else:
                i -= 1
        out.append(mk(self.ch[:end]))
        return out[::-1]

    def partition(self, sep):
        i = self.find(sep)
        if i < 0:
            return (mk(self.ch), '', '')
        return (mk(self.ch[:i]), sep, mk(self.ch[i + len(chars(sep)):]))

    def rpartition(self, sep):
        i = self.rfind(sep)
        if i < 0:
            return ('', '', mk(self.ch))
        return (mk(self.ch[:i]), sep, mk(self.ch[i + len(chars(sep)):]))

    def splitlines(self, keepends=False):
        out, cur, i, n = [], [], 0, len(self.ch)
        while i < n:
            c = self.ch[i]
            if decide(in_set(c, LINEBREAKS)):
                end = [c]
                if i + 1 < n and decide(ceq(c, '\r')) and decide(ceq(self.ch[i + 1], '\n')):
                    end.append(self.ch[i + 1])
                    i += 1
                out.append(mk(cur + end if keepends else cur))
                cur = []
            else:
                cur.append(c)
            i += 1
        if cur:
            out.append(mk(cur))
        return out

    def replace(self, old, new, count=-1):
        pat, rep = chars(old), chars(new)
        if not pat:
            raise core.Inconclusive('unsupported: replace of the empty string on a symbolic string')
        out, i, k = [], 0, 0
        while i < len(self.ch):
            if (count < 0 or k < count) and self._match(i, pat):
                out.extend(rep)
                i += len(pat)
                k += 1
            else:
                out.append(self.ch[i])
                i += 1
        return mk(out)

    def join(self, items):
        return join(self, items)

    # -- padding / case / classes -----------------------------------------------------------------------
    def ljust(self, w, fill=' '):
        return mk(self.ch + [fill] * max(0, w - len(self.ch)))

    def rjust(self, w, fill=' '):
        return mk([fill] * max(0, w - len(self.ch)) + self.ch)

    def center(self, w, fill=' '):
        pad = max(0, w - len(self.ch))
        left = pad // 2 + (pad & w & 1)
        return mk([fill] * left + self.ch + [fill] * (pad - left))

    def expandtabs(self, *a):
        raise core.Inconclusive('unsupported: expandtabs on a symbolic string')

    def _case(self, lower):
        out = []
        for c in self.ch:
            if isinstance(c, str):
                out.append(c.lower() if lower else c.upper())
            elif decide(z3.ULT(c, 128)):
                lo, hi, d = (65, 90, 32) if lower else (97, 122, -32)
                if decide(z3.And(z3.UGE(c, lo), z3.ULE(c, hi))):
                    out.append(c + d)
                else:
                    out.append(c)
            else:
                raise core.Inconclusive('unsupported: case mapping of a symbolic non-ASCII character')
        return mk(out)

    def lower(self): return self._case(True)
    def upper(self): return self._case(False)
    casefold = lower

    def isspace(self):
        return bool(self.ch) and all(decide(is_space(c)) for c in self.ch)

    def isdigit(self):
        for c in self.ch:
            if isinstance(c, str):
                if not c.isdigit():
                    return False
            elif decide(z3.And(z3.UGE(c, 48), z3.ULE(c, 57))):
                continue
            elif decide(z3.ULT(c, 128)):
                return False
            else:
                raise core.Inconclusive('unsupported: isdigit() of a symbolic non-ASCII character')
        return bool(self.ch)

    def format(self, *a, **k):
        raise core.Inconclusive('unsupported: a symbolic string used as a format template')

    def __mod__(self, o):
        raise core.Inconclusive('unsupported: a symbolic string used as a % template')

    def __getattr__(self, name):
        if hasattr(str, name):
            raise core.Inconclusive(f'unsupported: str.{name} on a symbolic string')
        raise AttributeError(name)


# -- the redirected constructs --------------------------------------------------------------------------------

def concat(parts):
    out = []
    for p in parts:
        out.extend(chars(p))
    return mk(out)


def join(sep, items):
    items = list(items)
    if isinstance(sep, str) and not has_sym(items, 1):
        return sep.join(items)
    out = []
    for k, it in enumerate(items):
        if not isinstance(it, (str, SymStr)):
            raise TypeError(f'sequence item {k}: expected str instance, {type(it).__name__} found')
        if k:
            out.extend(chars(sep))
        out.extend(chars(it))
    return mk(out)


_SPEC = re.compile(r'(?:(.)?([<>^]))?(\d+)?(s)?$', re.S)


def format_field(value, spec):
    if not isinstance(value, SymStr):
        return format(value, spec)
    if isinstance(spec, SymStr):
        raise core.Inconclusive('unsupported: symbolic format spec')
    m = _SPEC.match(spec)
    if not m:
        raise ValueError(f'Invalid format specifier {spec!r} for a string')
    fill, align, width, _ = m.groups()
    fill = fill or ' '
    width = int(width or 0)
    if align == '>':
        return value.rjust(width, fill)
    if align == '^':
        pad = max(0, width - len(value))
        return mk([fill] * (pad // 2) + value.ch + [fill] * (pad - pad // 2))
    return value.ljust(width, fill)


def fv(value, conversion, spec):
    """one replacement field of an f-string"""
    if not isinstance(value, SymStr) and not isinstance(spec, SymStr):
        if conversion == 115:
            value = str(value)
        elif conversion == 114:
            value = repr(value)
        elif conversion == 97:
            value = ascii(value)
        return format(value, spec)
    if conversion in (114, 97):
        raise core.Inconclusive('unsupported: repr() of a symbolic string')
    return format_field(value, spec)


def fstr(parts):
    return concat(parts)


_PCT = re.compile(r'%(?:\((\w+)\))?([-0 +#]*)(\d+|\*)?(?:\.(\d+))?([sdirafxXeEgGco%])')


def mod(a, b):
    if isinstance(a, SymStr):
        return a.__mod__(b)
    if not isinstance(a, str) or not has_sym(b):
        return a % b
    args = list(b) if isinstance(b, tuple) else [b]
    mapping = b if isinstance(b, dict) else None
    out, pos, k = [], 0, 0
    for m in _PCT.finditer(a):
        out.append(a[pos:m.start()])
        pos = m.end()
        key, flags, width, prec, conv = m.groups()
        if conv == '%':
            out.append('%')
            continue
        if width == '*':
            width = args[k]
            k += 1
        if key is not None:
            v = mapping[key]
        else:
            if k >= len(args):
                raise TypeError('not enough arguments for format string')
            v = args[k]
            k += 1
        if isinstance(v, SymStr):
            if conv not in 'sa' and conv != 's':
                raise TypeError(f'%{conv} format: a real number is required, not str')
            if prec is not None:
                v = v[:int(prec)]
            w = int(width or 0)
            v = (v.ljust(w) if '-' in flags else v.rjust(w)) if isinstance(v, SymStr) else \
                (v.ljust(w) if '-' in flags else v.rjust(w))
            out.append(v)
        else:
            out.append(('%' + flags + (str(width) if width else '') + ('.' + prec if prec else '') + conv) % (v,))
    out.append(a[pos:])
    if mapping is None and k < len(args):
        raise TypeError('not all arguments converted during string formatting')
    return concat(out)


def meth(obj, name, *args, **kwargs):
    """obj.name(*args) for the str methods that would swallow a proxy argument"""
    if isinstance(obj, str) and (has_sym(args) or has_sym(kwargs)):
        if name == 'join':
            return join(obj, *args)
        if name == 'format':
            out = []
            auto = 0
            for lit, field, spec, conv in string.Formatter().parse(obj):
                out.append(lit)
                if field is None:
                    continue
                if field == '':
                    v = args[auto]
                    auto += 1
                elif field.isdigit():
                    v = args[int(field)]
                elif field in kwargs:
                    v = kwargs[field]
                else:
                    raise core.Inconclusive(f'unsupported: format field {field!r} with a symbolic argument')
                out.append(fv(v, {None: -1, 's': 115, 'r': 114, 'a': 97}[conv], spec or ''))
            return concat(out)
    if name == 'join' and isinstance(obj, str) and args and not isinstance(args[0], (str, bytes)):
        items = list(args[0])
        if has_sym(items, 1):
            return join(obj, items)
        return obj.join(items)
    return getattr(obj, name)(*args, **kwargs)


def contains(a, b):
    """a in b"""
    if isinstance(b, str) and isinstance(a, SymStr):
        return SymStr(chars(b)).find(a) >= 0
    return a in b


def sx_print(*args, sep=' ', end='\n', file=None, flush=False):
    if file is None or not (isinstance(file, SymStringIO) or has_sym(args)):
        return builtins.print(*args, sep=sep, end=end, file=file, flush=flush)
    parts = []
    for k, a in enumerate(args):
        if k:
            parts.append(sep)
        parts.append(a if isinstance(a, (str, SymStr)) else str(a))
    parts.append(end)
    file.write(concat(parts))


# -- io.StringIO ------------------------------------------------------------------------------------------

class SymStringIO:
    """model of io.StringIO (text buffer with newline handling) that can hold symbolic characters"""

    def __init__(self, initial_value='', newline='\n'):
        if newline not in (None, '', '\n', '\r', '\r\n'):
            raise ValueError(f'illegal newline value: {newline!r}')
        self.newline = newline
        self.buf = []
        self.pos = 0
        self.closed = False
        if initial_value is not None and len(initial_value):
            self.write(initial_value)
            self.pos = 0

    def _translate(self, ch):
        nl = self.newline
        if nl in ('', '\n'):
            return list(ch)
        out = []
        if nl is None:
            i = 0
            while i < len(ch):
                c = ch[i]
                if decide(ceq(c, '\r')):
                    out.append('\n')
                    if i + 1 < len(ch) and decide(ceq(ch[i + 1], '\n')):
                        i += 1
                else:
                    out.append(c)
                i += 1
            return out
        for c in ch:
            if decide(ceq(c, '\n')):
                out.extend(nl)
            else:
                out.append(c)
        return out

    def _check(self):
        if self.closed:
            raise ValueError('I/O operation on closed file')

    def write(self, s):
        self._check()
        if not isinstance(s, (str, SymStr)):
            raise TypeError(f'string argument expected, got {type(s).__name__!r}')
        n = len(s)
        ch = self._translate(chars(s))
        if self.pos > len(self.buf):
            self.buf.extend(['\0'] * (self.pos - len(self.buf)))
        self.buf[self.pos:self.pos + len(ch)] = ch
        self.pos += len(ch)
        return n

    def writelines(self, lines):
        for l in lines:
            self.write(l)

    def getvalue(self):
        self._check()
        return mk(self.buf)

    def read(self, size=-1):
        self._check()
        if size is None or size < 0:
            size = len(self.buf)
        r = self.buf[self.pos:self.pos + size]
        self.pos = min(len(self.buf), self.pos + len(r))
        return mk(r)

    def readline(self, size=-1):
        self._check()
        i, n = self.pos, len(self.buf)
        while i < n:
            c = self.buf[i]
            i += 1
            if self.newline == '' or self.newline is None:
                if decide(ceq(c, '\n')):
                    break
                if self.newline == '' and decide(ceq(c, '\r')):
                    if i < n and decide(ceq(self.buf[i], '\n')):
                        i += 1
                    break
            elif self.newline == '\n':
                if decide(ceq(c, '\n')):
                    break
            else:
                pat = list(self.newline)
                if i >= len(pat) and all(decide(ceq(x, y)) for x, y in zip(self.buf[i - len(pat):i], pat)):
                    break
        r = self.buf[self.pos:i]
        self.pos = i
        return mk(r)

    def readlines(self, hint=-1):
        return list(self)

    def __iter__(self):
        return self

    def __next__(self):
        line = self.readline()
        if not len(line):
            raise StopIteration
        return line

    def seek(self, pos, whence=0):
        self._check()
        self.pos = pos if whence == 0 else (len(self.buf) if whence == 2 else self.pos)
        return self.pos

    def tell(self):
        return self.pos

    def truncate(self, size=None):
        size = self.pos if size is None else size
        del self.buf[size:]
        return size

    def flush(self):
        pass

    def close(self):
        self.closed = True

    def readable(self): return True
    def writable(self): return True
    def seekable(self): return True

    def __enter__(self):
        self._check()
        return self

    def __exit__(self, *a):
        self.close()


class _IoShim:
    StringIO = SymStringIO

    def __getattr__(self, name):
        return getattr(_io, name)


IO_SHIM = _IoShim()


# -- load-time transform ----------------------------------------------------------------------------------

class _Transformer(ast.NodeTransformer):
    def __init__(self):
        self.sites = 0
        self.literals = set()

    def _call(self, name, args, node, keywords=()):
        self.sites += 1
        return ast.copy_location(ast.Call(ast.Name(name, ast.Load()), list(args), list(keywords)), node)

    def visit_Constant(self, node):
        if isinstance(node.value, str):
            self.literals.update(node.value)
        return node

    def visit_BinOp(self, node):
        self.generic_visit(node)
        if isinstance(node.op, ast.Mod):
            return self._call('__sx_mod__', [node.left, node.right], node)
        return node

    def visit_JoinedStr(self, node):
        parts = []
        for v in node.values:
            if isinstance(v, ast.FormattedValue):
                spec = self.visit(v.format_spec) if v.format_spec is not None else ast.Constant('')
                parts.append(self._call('__sx_fv__', [self.visit(v.value), ast.Constant(v.conversion), spec], v))
            else:
                self.visit(v)
                parts.append(v)
        return self._call('__sx_fstr__', [ast.List(parts, ast.Load())], node)

    def visit_Call(self, node):
        self.generic_visit(node)
        f = node.func
        if isinstance(f, ast.Attribute) and f.attr in ('join', 'format') and \
                not any(isinstance(a, ast.Starred) for a in node.args) and not any(k.arg is None for k in node.keywords):
            return self._call('__sx_meth__', [f.value, ast.Constant(f.attr)] + node.args, node, node.keywords)
        return node

    def visit_Compare(self, node):
        self.generic_visit(node)
        if len(node.ops) == 1 and isinstance(node.ops[0], (ast.In, ast.NotIn)):
            c = self._call('__sx_in__', [node.left, node.comparators[0]], node)
            if isinstance(node.ops[0], ast.NotIn):
                return ast.copy_location(ast.UnaryOp(ast.Not(), c), node)
            return c
        return node

    def visit_Name(self, node):
        if isinstance(node.ctx, ast.Load) and node.id == 'print':
            self.sites += 1
            return ast.copy_location(ast.Name('__sx_print__', ast.Load()), node)
        return node


SITES = {}
TRANSFORMED = ('concepts.formats', 'concepts.tools')


class _Loader(importlib.machinery.SourceFileLoader):
    def get_code(self, fullname):
        path = self.get_filename(fullname)
        data = self.get_data(path)
        tree = ast.parse(data, path)
        tr = _Transformer()
        tree = tr.visit(tree)
        ast.fix_missing_locations(tree)
        SITES[fullname] = tr.sites
        ALPHABET.update(c for c in tr.literals if c != OTHER)
        return compile(tree, path, 'exec', dont_inherit=True)


class _Finder(importlib.abc.MetaPathFinder):
    def __init__(self, repo):
        self.repo = repo

    def find_spec(self, fullname, path, target=None):
        if not any(fullname == t or fullname.startswith(t + '.') for t in TRANSFORMED):
            return None
        spec = importlib.machinery.PathFinder.find_spec(fullname, path)
        if spec is not None and isinstance(spec.loader, importlib.machinery.SourceFileLoader):
            spec.loader = _Loader(spec.loader.name, spec.loader.path)
        return spec


def load_concepts(repo):
    """import concepts from ``repo`` (real bitsets) with the format modules loaded through the string transform"""
    if 'concepts' in sys.modules:
        if getattr(sys.modules['concepts'], '__symx_symstr__', False):
            return sys.modules['concepts']
        raise RuntimeError('concepts already imported without the string transform')
    builtins.__sx_mod__ = mod
    builtins.__sx_fv__ = fv
    builtins.__sx_fstr__ = fstr
    builtins.__sx_meth__ = meth
    builtins.__sx_in__ = contains
    builtins.__sx_print__ = sx_print
    sys.dont_write_bytecode = True
    if repo not in sys.path:
        sys.path.insert(0, repo)
    sys.meta_path.insert(0, _Finder(repo))
    import concepts
    assert os.path.realpath(concepts.__file__).startswith(os.path.realpath(repo) + os.sep), concepts.__file__
    for name, m in list(sys.modules.items()):
        if any(name == t or name.startswith(t + '.') for t in TRANSFORMED) and m is not None:
            for k, v in list(vars(m).items()):
                if v is _io:
                    setattr(m, k, IO_SHIM)
                elif v is _re:
                    setattr(m, k, RE_SHIM)
                elif isinstance(v, _re.Pattern):
                    setattr(m, k, SymPattern(v.pattern, v.flags))
                elif v is _io.StringIO:
                    setattr(m, k, SymStringIO)
    concepts.__symx_symstr__ = True
    return concepts


# -- harness helpers --------------------------------------------------------------------------------------

def sym_label(tag, length):
    """a label of the given length with fresh symbolic characters (to be constrained by the harness)"""
    return SymStr([z3.BitVec(f'{tag}_{k}', CW) for k in range(length)])


def eval_str(mdl, s):
    out = []
    for c in chars(s):
        if isinstance(c, str):
            out.append(c)
        else:
            out.append(chr(mdl.eval(c, model_completion=True).as_long()))
    return ''.join(out)


# -- regular expressions on symbolic strings ------------------------------------------------------------------
# A regular expression distinguishes characters only through the single-character predicates that occur in it
# (literals, ranges, categories, '.').  Every symbolic character is decided against those predicates (solver
# decisions), replaced by a concrete representative with the same outcomes, and the REAL ``re`` engine runs on the
# representative string.  Match positions are exact; groups are returned as slices of the ORIGINAL symbolic string.

import re as _re

_DIGITS = [c for c in range(0x110000) if chr(c).isdecimal()]
_WORD = [c for c in range(0x110000) if chr(c).isalnum() or c == 95]
_CANDIDATES = list(range(0x20, 0x7f)) + list(range(0, 0x20)) + [0x7f] + list(range(0x80, 0x250)) + \
    [0x660, 0x1680, 0x2003, 0x2028, 0x3000, 0x4e00, 0xe000, 0x1f600]


def _predicates(pattern, flags):
    try:
        from re import _parser as sp, _constants as sc
    except ImportError:      # pragma: no cover
        import sre_parse as sp, sre_constants as sc
    if flags & (_re.IGNORECASE | _re.ASCII | _re.LOCALE):
        raise core.Inconclusive('unsupported: regular expression flags on a symbolic string')
    preds = {('lit', 10)}        # anchors look at line ends; \b adds the word category below

    def cat(code):
        name = str(code)
        for k in ('DIGIT', 'SPACE', 'WORD', 'LINEBREAK'):
            if k in name:
                return ('cat', k.lower())
        raise core.Inconclusive(f'unsupported: regular expression category {name}')

    def walk(items):
        for op, av in items:
            op_name = str(op)
            if op_name in ('LITERAL', 'NOT_LITERAL'):
                preds.add(('lit', av))
            elif op_name == 'ANY':
                preds.add(('lit', 10))
            elif op_name == 'IN':
                for o2, a2 in av:
                    n2 = str(o2)
                    if n2 == 'LITERAL':
                        preds.add(('lit', a2))
                    elif n2 == 'RANGE':
                        preds.add(('range', a2))
                    elif n2 == 'CATEGORY':
                        preds.add(cat(a2))
                    elif n2 != 'NEGATE':
                        raise core.Inconclusive(f'unsupported: regular expression set item {n2}')
            elif op_name == 'CATEGORY':
                preds.add(cat(av))
            elif op_name in ('MAX_REPEAT', 'MIN_REPEAT', 'POSSESSIVE_REPEAT'):
                walk(av[2])
            elif op_name == 'SUBPATTERN':
                if av[1] or av[2]:
                    raise core.Inconclusive('unsupported: inline regular expression flags')
                walk(av[3])
            elif op_name == 'BRANCH':
                for alt in av[1]:
                    walk(alt)
            elif op_name in ('ASSERT', 'ASSERT_NOT'):
                walk(av[1])
            elif op_name == 'ATOMIC_GROUP':
                walk(av)
            elif op_name == 'AT':
                if 'BOUNDARY' in str(av):
                    preds.add(('cat', 'word'))
            elif op_name == 'GROUPREF':
                raise core.Inconclusive('unsupported: back-reference on a symbolic string')
            else:
                raise core.Inconclusive(f'unsupported: regular expression node {op_name}')
    walk(sp.parse(pattern, flags))
    return sorted(preds, key=repr)


def _holds(pred, c):
    """pred on a code point (int -> bool) or on a symbolic character (-> z3 Bool)"""
    kind, a = pred
    conc = isinstance(c, int)
    if kind == 'lit':
        return c == a
    if kind == 'range':
        return (a[0] <= c <= a[1]) if conc else z3.And(z3.UGE(c, a[0]), z3.ULE(c, a[1]))
    codes = {'space': SPACES, 'digit': _DIGITS, 'word': _WORD, 'linebreak': [10]}[a]
    if conc:
        return c in _SETS.setdefault(a, set(codes))
    return in_set(c, codes)


_SETS = {}


def _representative(s, preds):
    out = []
    for c in chars(s):
        if isinstance(c, str):
            out.append(c)
            continue
        outcome = [decide(_holds(p, c)) for p in preds]
        for cand in _CANDIDATES:
            if [bool(_holds(p, cand)) for p in preds] == outcome:
                out.append(chr(cand))
                break
        else:
            raise core.Inconclusive('no representative character for a class of a regular expression')
    return ''.join(out)


class SymMatch:
    def __init__(self, m, original):
        self._m, self._s = m, original
        self.re, self.pos, self.endpos, self.lastindex = m.re, m.pos, m.endpos, m.lastindex

    def __bool__(self):
        return True

    def start(self, g=0): return self._m.start(g)
    def end(self, g=0): return self._m.end(g)
    def span(self, g=0): return self._m.span(g)

    def group(self, *gs):
        def one(g):
            a, b = self._m.span(g)
            return None if a < 0 else self._s[a:b]
        if not gs:
            return one(0)
        return one(gs[0]) if len(gs) == 1 else tuple(one(g) for g in gs)

    __getitem__ = group

    def groups(self, default=None):
        return tuple((self.group(k) if self._m.span(k)[0] >= 0 else default) for k in range(1, self._m.re.groups + 1))

    def groupdict(self, default=None):
        return {k: (self.group(k) if self._m.span(k)[0] >= 0 else default) for k in self._m.re.groupindex}

    @property
    def string(self):
        return self._s


class SymPattern:
    def __init__(self, pattern, flags=0):
        self._p = _re.compile(pattern, flags)
        self.pattern, self.flags, self.groups, self.groupindex = self._p.pattern, self._p.flags, self._p.groups, self._p.groupindex
        self._preds = None

    def _rep(self, s):
        if self._preds is None:
            self._preds = _predicates(self._p.pattern, self._p.flags & ~_re.UNICODE)
        return _representative(s, self._preds)

    def _one(self, name, s, *a):
        if not isinstance(s, SymStr):
            return getattr(self._p, name)(s, *a)
        m = getattr(self._p, name)(self._rep(s), *a)
        return None if m is None else SymMatch(m, s)

    def match(self, s, *a): return self._one('match', s, *a)
    def fullmatch(self, s, *a): return self._one('fullmatch', s, *a)
    def search(self, s, *a): return self._one('search', s, *a)

    def finditer(self, s, *a):
        if not isinstance(s, SymStr):
            return self._p.finditer(s, *a)
        return iter([SymMatch(m, s) for m in self._p.finditer(self._rep(s), *a)])

    def findall(self, s, *a):
        if not isinstance(s, SymStr):
            return self._p.findall(s, *a)
        out = []
        for m in self.finditer(s, *a):
            out.append(m.group(0) if self.groups == 0 else m.group(1) if self.groups == 1 else m.groups(''))
        return out

    def split(self, s, maxsplit=0):
        if not isinstance(s, SymStr):
            return self._p.split(s, maxsplit)
        out, pos = [], 0
        for k, m in enumerate(self.finditer(s)):
            if maxsplit and k >= maxsplit:
                break
            out.append(s[pos:m.start()])
            out.extend(m.groups())
            pos = m.end()
        out.append(s[pos:])
        return out

    def sub(self, repl, s, count=0):
        if not isinstance(s, SymStr):
            return self._p.sub(repl, s, count)
        if callable(repl) or '\\' in repl:
            raise core.Inconclusive('unsupported: re.sub with a template/callable on a symbolic string')
        out, pos = [], 0
        for k, m in enumerate(self.finditer(s)):
            if count and k >= count:
                break
            out += [s[pos:m.start()], repl]
            pos = m.end()
        out.append(s[pos:])
        return concat(out)


def _via(name):
    def f(self, pattern, string, *a, flags=0, **k):
        p = pattern if isinstance(pattern, SymPattern) else SymPattern(pattern, flags)
        return getattr(p, name)(string, *a, **k)
    return f


class _ReShim:
    match = _via('match')
    fullmatch = _via('fullmatch')
    search = _via('search')
    finditer = _via('finditer')
    findall = _via('findall')
    split = _via('split')

    def compile(self, pattern, flags=0):
        return pattern if isinstance(pattern, SymPattern) else SymPattern(pattern, flags)

    def sub(self, pattern, repl, string, count=0, flags=0):
        p = pattern if isinstance(pattern, SymPattern) else SymPattern(pattern, flags)
        return p.sub(repl, string, count)

    def __getattr__(self, name):
        return getattr(_re, name)


RE_SHIM = _ReShim()
