"""Generates MANIFEST.json from the table below (developer tool: python tools_manifest.py)."""
import json

CLAIMED = {
    'C01': ('bounded symbolic execution (merge-interpreter, full unrolling + unwinding assertions) of the real derivation '
            'closures vs. the Galois spec, inductive loop-invariant step at widths 66-130, API on symbolic tables; z3 QF_BV',
            '5 C01'),
    'C08': ('symbolic execution of the eight real predicate methods on two arbitrary bit-vector extents vs. set-theoretic '
            'spec; intent side on symbolic tables; z3 QF_BV', '5 C08'),
}
_GEN = 'symbolic execution of the real generator on fully symbolic tables (paths = behaviours; closure kernels by proven contract), per-path SMT queries incl. fresh-witness completeness; '
_TAB = 'solver-driven path partition of all tables up to the bound through the real Context/Lattice constructors, per-path comparison with a definitional oracle; z3 QF_BV'
CLAIMED.update({
    'C02': ('closure laws as SMT queries on the real merged kernels (symbolic table, x, y); Context.__getitem__ on symbolic tables for every label subset; ' + _TAB, '5 C02'),
    'C03': (_GEN + _TAB, '5 C03'),
    'C04': ('real FCbO generators (by intents, by extents) and wrappers: ' + _GEN + _TAB, '5 C04'),
    'C05': ('real lindig.neighbors merge-interpreted on symbolic table + symbolic closed extent vs. upper-cover spec (one SMT query per shape); generator link lists; ' + _TAB, '5 C05'),
    'C06': ('symbolic shortlex keys of consecutive generator yields compared by SMT; ' + _TAB, '5 C06'),
    'C07': ('join/meet lemma: real Concept/Lattice join/meet bodies merge-interpreted on symbolic closed extents vs. closure(union)/intersection; ' + _TAB, '5 C07'),
    'C09': (_TAB, '5 C09'),
    'C10': (_TAB, '5 C10'),
    'C18': (_TAB, '5 C18'),
    'C20': (_TAB + ' (DOT source parsed and compared with the labelled cover relation)', '5 C20'),
})
CLAIMED.update({
    'C16': ('symbolic execution of the real junctors classifier on symbolic columns with a symbolic truth-pattern set model (paths = classes of occurring combinations); per-path SMT queries for kind, presence, orientation, order; printing on every path', '5 C16'),
    'C17': ('nondeterministic environment stub for hash randomisation: every set built by repository code iterates in an explorer/solver-chosen order (load-time AST transform); transcripts compared over all orders; counterexamples replayed in separate processes under different PYTHONHASHSEED', '5 C17'),
    'C19': ('symbolic execution of the real Context(...)/fromdict validation on inputs with solver-decided name aliasing (SymName), symbolic cells and symbolic column indexes; per path: unsat(pc and valid) on raising paths, pc implies valid and faithfulness on accepting paths', '5 C19'),
})
CLAIMED.update({
    'C13': ('one inductive step per editing operation: arbitrary valid Definition state (all name orders, one symbolic Boolean per cell), real method bodies merge-interpreted, post-state vs list-and-set model by SMT queries', '5 C13'),
    'C14': ('derivations on symbolic-cell definitions vs cell-wise model by SMT, structural + behavioural aliasing checks with follow-up edits; Context<->Definition per table via the solver-driven table partition', '5 C14'),
})
CLAIMED.update({
    'C11': (_TAB + ' (todict/fromdict/fromjson/python-literal round trips incl. raw=True under permutations of the stored order; pickle sentence NOT covered)', '5 C11'),
    'C15': ('relational symbolic execution: the real generators run on a symbolic table and on its transform (row/column rotation, transpose, duplicated row/column) on the same path, correspondence of the yielded families decided by SMT; metamorphic per-table comparison over the solver-driven table partition', '5 C15'),
})
CLAIMED.update({
    'C12': ('symbolic execution of the real table/cxt/wiki-table dumpers and loaders on labels whose characters are solver '
            'variables (21-bit code points; str operations on the proxy are solver decisions, io.StringIO modelled, str '
            'operators redirected by a load-time AST transform) with symbolic cells: per path SMT queries for an independent '
            'reader of the emitted text, loads(dumps(x)) == x and independent writers; every format (csv, python-literal, '
            'fimi, files, encodings, load() suffix inference) per table on fixed awkward labels over the solver-driven '
            'table partition; z3 QF_BV', '5 C12'),
})
PENDING = {}
NA = {}
NOTES = {
    'C11': ' NOT covered by this check: the pickle sentence of C11 (pickling a context or lattice in the same or another '
           'interpreter process, recursion depth for thousands of concepts): pickle is C code over the real bitsets class '
           'registry, the symbolic proxies cannot pass through it, and lattice sizes in the thousands are outside any '
           'symbolic bound.',
    'C12': ' Claimed for the part the solver reaches. Label TEXT is symbolic only for the table, cxt and wiki-table formats '
           '(labels of the stated lengths, every code point allowed by the representability condition). NOT covered with '
           'symbolic text: csv and python-literal (C csv module / ast parser: a proxy cannot pass; these run on a fixed menu '
           'of awkward concrete labels per table only), encodings (three concrete encodings on concrete labels), csv '
           'dialects other than excel, file-suffix strings other than the registered suffixes in lower and upper case.',
    'C17': ' Hash randomisation is modelled (every iteration order of every set built by repository code), which '
           'quantifies over a superset of what PYTHONHASHSEED can produce; the literal multi-process experiment is only run '
           'to replay counterexamples and to validate sampled corpus items (5 seeds).',
}
ALL = [f'C{i:02d}' for i in range(1, 21)]


def main():
    checks = []
    for pid, (tech, ref) in sorted(CLAIMED.items()):
        checks.append({
            'property_id': pid,
            'quick_cmd': f'bin/check {pid} --tier quick',
            'thorough_cmd': f'bin/check {pid} --tier thorough',
            'evidence_file': f'evidence/{pid}.json',
            'replay_cmd_template': f'bin/check {pid} --replay {{path}}',
            'engine': 'symx',
            'level_claimed': {
                'category': 'model_checking',
                'text': 'Bounded symbolic model checking of the real Python code: the functions named in the evidence are '
                        'executed on solver variables (tables, query sets, orders); z3 shows the property assertion holds '
                        'for every value inside the stated bounds or returns a counterexample that is replayed on the '
                        'unmodified code with the real bitsets before it is reported. Nothing is claimed outside the bounds.',
                'design_ref': f'DESIGN.md section {ref}',
            },
            'level_note': 'Trusted: CPython, z3 5.1.0, the symx engine (path explorer, merge-interpreter, symbolic model '
                          'of the third-party bitsets package - validated against the real library and the repo fixtures '
                          'on every run by checks/selftest.py), the declarative FCA specs/oracle. Bounds per unit are '
                          'listed in the evidence file.' + NOTES.get(pid, ''),
            'technique': tech,
        })
    na = [{'property_id': p, 'reason': r} for p, r in sorted(NA.items())]
    for p in ALL:
        if p not in CLAIMED and p not in NA:
            na.append({'property_id': p, 'reason': PENDING.get(p, 'check not built yet in this round (planned, see '
                                                                  'DESIGN.md section 5); no claim is made')})
    na.sort(key=lambda d: d['property_id'])
    man = {
        'version': 1,
        'setup_cmd': 'sh ./setup.sh && PYTHONPATH=.deps:. /venv/bin/python -m checks.selftest',
        'hooks': {
            'guard': 'XFLR6_CONCEPTS_VERIF',
            'enable': 'no source hooks are needed: models are injected at import time (sys.modules[bitsets], module '
                      'globals, load-time AST transform); the guard variable is unused',
            'baseline_off_cmd': 'cd /repo && /venv/bin/python -m pytest -ra -q -p no:cacheprovider --timeout=900 '
                                '--continue-on-collection-errors',
            'source_commits': [],
            'add_only': True,
        },
        'engines': [{'name': 'symx', 'path': 'symx/', 'serves_properties': sorted(CLAIMED),
                     'kind_free_text': 'symbolic execution of live Python function objects on z3 bit-vector proxies: '
                                       're-execution DFS path explorer, AST merge-interpreter with loop unrolling / loop '
                                       'invariants, kernel contracts, environment models; counterexamples replayed on the '
                                       'real code'}],
        'checks': checks,
        'not_applicable': na,
        'notes': 'exit 0 held / exit 1 VIOLATION (replayed on real code) / exit 3 inconclusive (never success).',
    }
    with open('MANIFEST.json', 'w') as f:
        json.dump(man, f, indent=1)
    print('claimed', sorted(CLAIMED), 'not_applicable', [d['property_id'] for d in na])


if __name__ == '__main__':
    main()
