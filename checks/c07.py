"""C07 -- join and meet are the least upper and greatest lower bounds.

(a) lemma on the real Concept.join/meet and Lattice.join/meet bodies, merge-interpreted with the real merged closure
    kernel and a recording stand-in for the extent->concept mapping: for symbolic tables and symbolic closed extents
    the looked-up extent is closure(union) resp. the intersection (which is closed);
(b) Lattice.join/meet, Concept.join/meet, | and & per table: all pairs, all multisets of size <= 3, identity of
    the result, lattice laws."""
import types

import z3

from symx import core, harness, minterp
from symx.core import _bv
from . import common, gen, pertable, _mk

PID = 'C07'


def _tabguard(get):
    def deco(fn):
        def case(mdl, what):
            objs, props, cells = get()
            return {'kind': f'table:{PID}', 'objects': list(objs), 'properties': list(props),
                    'table': harness.table_from_model(mdl, cells), 'what': what}
        return common.guarded(fn, case)
    return deco


def units(tier, seed):
    if tier == 'quick':
        lem = [(n, m) for n in range(1, 6) for m in range(1, 6) if abs(n - m) <= 1]
        t = _mk.QUICK_TABLES
    else:
        lem = [(n, m) for n in range(1, 7) for m in range(1, 7)]
        t = _mk.THOROUGH_TABLES
    us = gen.kernel_units(set(t))
    us += [{'name': f'join/meet lemma {n}x{m}', 'fn': 'unit_lemma', 'args': {'n': n, 'm': m}} for n, m in lem]
    us += _mk.table_units(t)
    us += _mk.inductive_units(tier) + _mk.skeleton_kernel_units(tier, seed) + _mk.skeleton_units(tier, seed)
    return _mk.order(us)


unit_kernel = _mk.kernel_unit_for(PID)
unit_inductive = _mk.inductive_unit_for(PID)


def unit_table(args, prefix=(), max_depth=None):
    return pertable.unit(PID, 'b07', args, prefix, max_depth)


class Recording:
    """stand-in for lattice._mapping: returns the key that is looked up"""

    def __getitem__(self, key):
        return key


def unit_lemma(args, prefix=(), max_depth=None):
    n, m = args['n'], args['m']
    harness.set_width_for(n, m)
    harness.set_kernel_mode('merged')
    concepts = harness.load_concepts()
    from concepts import lattice_members as lm, lattices
    cells = harness.cell_vars(n, m)
    xs = [z3.BitVec(f'x{k}', core.W) for k in range(3)]
    objs, props = harness.names(n, m)

    @_tabguard(lambda: (objs, props, cells))
    def body():
        cx = core.ctx()
        ctx = concepts.Context(objs, props, harness.sym_rows(cells))
        sp = harness.Spec(cells)
        O = ctx._Objects
        lat = types.SimpleNamespace(_context=ctx, _mapping=Recording())
        cs = [lm.Concept(lat, O.fromint(core.SymInt(x)), None, (), ()) for x in xs]
        pre = [z3.And(sp.is_objset(x), sp.closed_o(x)) for x in xs]
        named = []
        cx.assume(*pre)
        a, b, c = xs
        for name in ('join', '__or__'):
            got = minterp.call(getattr(lm.Concept, name), cs[0], cs[1])
            named.append((_bv(got) == sp.closure_o(a | b), f'Concept.{name}: looked-up extent != closure of the union'))
        for name in ('meet', '__and__'):
            got = minterp.call(getattr(lm.Concept, name), cs[0], cs[1])
            named.append((z3.And(_bv(got) == a & b, sp.closed_o(a & b)), f'Concept.{name}: looked-up extent != intersection'))
        for k in range(4):
            sel = cs[:k]
            u, it = 0, sp.full_o
            for x in xs[:k]:
                u, it = u | x, it & x
            gj = minterp.call(lattices.Lattice.join, lat, iter(sel))
            gm = minterp.call(lattices.Lattice.meet, lat, list(sel))
            named.append((_bv(gj) == sp.closure_o(u), f'Lattice.join of {k} concepts != closure of the union'))
            named.append((_bv(gm) == _bv(it), f'Lattice.meet of {k} concepts != intersection'))
        out = {'cex': [], 'queries': len(named)}
        for cond, what in named:
            mdl = cx.check_fresh(z3.Not(cond), want_model=True)
            if mdl is not None:
                out['cex'].append({'kind': f'table:{PID}', 'objects': list(objs), 'properties': list(props),
                                   'table': harness.table_from_model(mdl, cells), 'what': what})
        for msg, mdl in cx.failed_obligations(want_model=True):
            out['cex'].append({'kind': f'table:{PID}', 'objects': list(objs), 'properties': list(props),
                               'table': harness.table_from_model(mdl, cells), 'what': f'obligation: {msg}'})
        if not cx.check_fresh():
            out['inconclusive'] = ['vacuous']
        out['sample'] = {'unit': f'join/meet lemma {n}x{m}', 'inputs': 'symbolic table, three symbolic closed extents',
                         'queries': [w for _, w in named]}
        return out
    res = common.run_paths(body, prefix, max_depth)
    res['encoded'] = harness.encoded(lm.Concept.join, lm.Concept.meet, lattices.Lattice.join, lattices.Lattice.meet)
    res['bounds'] = f'all {n}x{m} tables x all triples of closed extents'
    res['stubs'] = ['lattice._mapping -> recording stand-in returning the looked-up extent (the real mapping is exercised per table)']
    return res
