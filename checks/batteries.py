"""Concrete observation batteries: for one concrete table, compare every observable a property talks about
(through the public API of whatever ``concepts`` is imported) with the brute-force oracle.

Used (a) to replay solver counterexamples against the real code with the real ``bitsets`` in a fresh interpreter,
and (b) at the end of per-table paths of the symbolic exploration (table pinned by the path condition).
Each battery returns a list of failure strings (empty = all observables agree)."""
import itertools

from .oracle import Oracle, bits, mask


def subsets(seq, max_size=None):
    seq = list(seq)
    for k in range(len(seq) + 1):
        if max_size is not None and k > max_size:
            return
        yield from itertools.combinations(seq, k)


def label_queries(labels, limit=6):
    """all subsets for small label lists, else a structured family (empty, singletons, pairs, prefixes, all), thinned
    out for long lists (word-boundary neighbours kept)"""
    labels = list(labels)
    L = len(labels)
    if L <= limit:
        return [list(s) for s in subsets(labels)]
    if L <= 16:
        singles = list(range(L))
        pairs = list(itertools.combinations(range(L), 2))
    else:
        keep = sorted({0, 1, 2, 7, 8, 9, 31, 32, 33, 62, 63, 64, 65, 66, 127, 128, 129, L // 2, L - 2, L - 1} & set(range(L)))
        singles = keep
        pairs = [(a, b) for a, b in itertools.combinations(keep, 2) if b - a in (1, 2, 63, 64, 65) or a < 3][:60]
    out = [[]] + [[labels[i]] for i in singles] + [[labels[a], labels[b]] for a, b in pairs]
    cuts = range(3, L + 1) if L <= 16 else [3, 8, 9, 63, 64, 65, 66, 128, 129, L]
    out += [labels[:k] for k in cuts if k <= L] + [labels[k:] for k in (range(1, L - 2) if L <= 16 else [1, 63, 64, 65, L - 3]) if k < L]
    out += [labels[::2], labels[1::2]]
    seen, res = set(), []
    for q in out:
        t = tuple(q)
        if t not in seen:
            seen.add(t)
            res.append(q)
    return res


def abandon(it, k=1):
    """start an iterator and drop it after k items: later calls must not be affected by a half-consumed one"""
    try:
        for _ in range(k):
            next(it)
    except StopIteration:
        pass


def rawmask(v):
    """int mask of a raw bitset value (real bitsets: int subclass; model: SymInt concretised)"""
    return int(v)


# -- C01 ---------------------------------------------------------------------------------------------------

def b01(ctx, orc, queries=None):
    fails = []
    if tuple(ctx.objects) != orc.objects or tuple(ctx.properties) != orc.properties:
        fails.append(f'objects/properties {ctx.objects!r} {ctx.properties!r}')
    got = [tuple(bool(x) for x in row) for row in ctx.bools]
    if got != orc.table:
        fails.append(f'bools {got!r} != table')
    first = ctx.bools
    try:       # what a caller does with a returned value must not change what the context reports afterwards
        first.reverse()
        first.append(('junk',))
    except (AttributeError, TypeError):
        pass
    again = [tuple(bool(x) for x in row) for row in ctx.bools]
    if again != orc.table:
        fails.append(f'bools after the caller modified an earlier result: {again!r} != table')
    oq = label_queries(orc.objects) if queries is None else [q for side, q in queries if side == 'intension']
    pq = label_queries(orc.properties) if queries is None else [q for side, q in queries if side == 'extension']
    def forms(q):
        v = [list(q), list(reversed(q)), list(q) + list(q[:1]), tuple(q), iter(list(q)), set(q), dict.fromkeys(q).keys(),
             (x for x in q)]
        if q and all(isinstance(x, str) and len(x) == 1 for x in q):
            v.append(''.join(q))        # a str is an iterable of one-character labels
            v.append(''.join(reversed(q)))
        return v
    for q in oq:
        want = orc.intent(orc.omask(q))
        variants = forms(q)
        for v in variants:
            desc = repr(v)
            raw = ctx.intension(v, raw=True)
            if rawmask(raw) != want:
                fails.append(f'intension({desc}, raw=True) = {rawmask(raw):#b}, expected {want:#b}')
        lab = ctx.intension(list(q))
        if tuple(lab) != orc.plabels(want) or not isinstance(lab, tuple):
            fails.append(f'intension({q!r}) = {lab!r}, expected {orc.plabels(want)!r}')
        if tuple(ctx.intension(list(q), raw=True).members()) != tuple(lab):
            fails.append(f'intension({q!r}): raw and label forms differ')
    for q in pq:
        want = orc.extent(orc.pmask(q))
        variants = forms(q)
        for v in variants:
            desc = repr(v)
            raw = ctx.extension(v, raw=True)
            if rawmask(raw) != want:
                fails.append(f'extension({desc}, raw=True) = {rawmask(raw):#b}, expected {want:#b}')
        lab = ctx.extension(list(q))
        if tuple(lab) != orc.olabels(want) or not isinstance(lab, tuple):
            fails.append(f'extension({q!r}) = {lab!r}, expected {orc.olabels(want)!r}')
        if tuple(ctx.extension(list(q), raw=True).members()) != tuple(lab):
            fails.append(f'extension({q!r}): raw and label forms differ')
    return fails


# -- C08 ---------------------------------------------------------------------------------------------------

PRED_SPEC = {
    'implies': lambda x, y, f: x & y == x, 'subsumes': lambda x, y, f: x | y == x,
    'properly_implies': lambda x, y, f: x & y == x and x != y,
    'properly_subsumes': lambda x, y, f: x | y == x and x != y,
    'incompatible_with': lambda x, y, f: x & y == 0,
    'complement_of': lambda x, y, f: x & y == 0 and x | y == f,
    'subcontrary_with': lambda x, y, f: x & y != 0 and x | y == f,
    'orthogonal_to': lambda x, y, f: x & y != 0 and x & y != x and x & y != y and x | y != f,
}
import operator
OPS = {'<=': (operator.le, 'implies'), '>=': (operator.ge, 'subsumes'), '<': (operator.lt, 'properly_implies'),
       '>': (operator.gt, 'properly_subsumes')}


def b08_pair(cx, cy, x, y, full, intents=None):
    fails = []
    for name, f in PRED_SPEC.items():
        got = getattr(cx, name)(cy)
        if bool(got) != bool(f(x, y, full)):
            fails.append(f'{name}: extents {x:#b},{y:#b} -> {got!r}, expected {bool(f(x, y, full))}')
    for sym, (op, name) in OPS.items():
        got = op(cx, cy)
        if bool(got) != bool(PRED_SPEC[name](x, y, full)):
            fails.append(f'operator {sym}: extents {x:#b},{y:#b} -> {got!r}')
    if intents is not None:
        ix, iy = intents
        if bool(cx <= cy) != (iy & ix == iy):
            fails.append(f'<= vs intents: {ix:#b} {iy:#b}')
    return fails


def b08(ctx, orc):
    fails = []
    lat = ctx.lattice
    cs = list(lat)
    for a in cs:
        for b in cs:
            x, y = orc.omask(a.extent), orc.omask(b.extent)
            fails += b08_pair(a, b, x, y, orc.full_o, (orc.pmask(a.intent), orc.pmask(b.intent)))
            if a is not b and a <= b and b <= a:
                fails.append('distinct concepts mutually <=')
    return fails


# -- lattice level ------------------------------------------------------------------------------------------

def _emask(orc, c):
    return orc.omask(c.extent)


def _multisets(cs, cap=400):
    """all pairs and all multisets of size 3 (with repeats) for small lattices; a deterministic stride beyond"""
    out = [[]] + [[a] for a in cs] + [[a, b] for a in cs for b in cs]
    tri = [[a, b, c] for a in cs for b in cs for c in cs]
    if len(tri) > cap:
        step = len(tri) // cap + 1
        tri = tri[::step]
    return out + tri


def b03(ctx, orc):
    fails = []
    # the order of first use must not matter: on a twin context neighbors() (Lindig's cover search) and a closure
    # lookup run BEFORE the lattice is first built
    try:
        twin = type(ctx)(list(orc.objects), list(orc.properties), [tuple(bool(c) for c in r) for r in orc.table])
        abandon(iter(twin.neighbors(list(orc.objects[:1]))))
        for k in range(min(orc.n, 3)):
            list(twin.neighbors([orc.objects[k]]))
        list(twin.neighbors([]))
        twin[list(orc.properties[:1])]
        tgot = sorted((tuple(e), tuple(i)) for e, i in twin.lattice)
        twant = sorted((orc.olabels(e), orc.plabels(i)) for e, i in orc.concepts())
        if tgot != twant:
            fails.append(f'lattice built after neighbors() calls on the same context: {tgot!r} != formal concepts {twant!r}')
    except (KeyError, IndexError, AttributeError, RuntimeError) as e:
        fails.append(f'lattice built after neighbors() calls on the same context raised {type(e).__name__}: {e}')
    lat = ctx.lattice
    abandon(iter(lat))
    got = [(tuple(e), tuple(i)) for e, i in lat]
    want = [(orc.olabels(e), orc.plabels(i)) for e, i in orc.concepts()]
    if sorted(got) != sorted(want):
        fails.append(f'concepts {sorted(got)!r} != formal concepts {sorted(want)!r}')
    if len(set(got)) != len(got):
        fails.append('a concept is repeated in the lattice')
    for e, i in got:
        if orc.intent(orc.omask(e)) != orc.pmask(i) or orc.extent(orc.pmask(i)) != orc.omask(e):
            fails.append(f'({e!r}, {i!r}) is not a formal concept')
    if len(lat) != len(want):
        fails.append(f'len(lattice) = {len(lat)}, expected {len(want)}')
    if orc.olabels(orc.bottom()) not in [e for e, _ in got]:
        fails.append('bottom (closure of the empty set) missing')
    if orc.objects not in [e for e, _ in got]:
        fails.append('top (all objects) missing')
    if all(all(r) for r in orc.table) and len(lat) != 1:
        fails.append('all-crosses table must give a one-element lattice')
    return fails


def b04(ctx, orc):
    import concepts
    from concepts import algorithms
    fails = []
    for g in (algorithms.iterconcepts, algorithms.fast_generate_from, algorithms.fcbo_dual):
        abandon(iter(g(ctx)), 2)
    any(True for _ in algorithms.iterconcepts(ctx))
    want = sorted((orc.olabels(e), orc.plabels(i)) for e, i in orc.concepts())
    outs = {
        'fast_generate_from': [(tuple(e.members()), tuple(i.members())) for e, i in algorithms.fast_generate_from(ctx)],
        'fcbo_dual': [(tuple(e.members()), tuple(i.members())) for e, i in algorithms.fcbo_dual(ctx)],
        'get_concepts': [(tuple(c.extent.members()), tuple(c.intent.members())) for c in algorithms.get_concepts(ctx)],
        'iterconcepts': [(tuple(c.extent.members()), tuple(c.intent.members())) for c in algorithms.iterconcepts(ctx)],
        'lattice': [(tuple(e), tuple(i)) for e, i in ctx.lattice],
    }
    for name, got in outs.items():
        if len(set(got)) != len(got):
            fails.append(f'{name}: a concept is produced twice')
        if sorted(got) != want:
            fails.append(f'{name}: {sorted(got)!r} != formal concepts {want!r}')
    gc = algorithms.get_concepts(ctx)
    if not isinstance(gc, list) or not all(hasattr(c, 'extent') and hasattr(c, 'intent') for c in gc):
        fails.append('get_concepts does not return a list of Concept pairs')
    return fails


def b05(ctx, orc):
    fails = []
    lat = ctx.lattice
    by_ext = {_emask(orc, c): c for c in lat}
    for c in lat:
        e = _emask(orc, c)
        up = [_emask(orc, u) for u in c.upper_neighbors]
        lo = [_emask(orc, l) for l in c.lower_neighbors]
        if sorted(up) != sorted(orc.upper_covers(e)):
            fails.append(f'upper_neighbors of {c.extent!r}: {sorted(up)} != covers {sorted(orc.upper_covers(e))}')
        if sorted(lo) != sorted(orc.lower_covers(e)):
            fails.append(f'lower_neighbors of {c.extent!r}: {sorted(lo)} != covers {sorted(orc.lower_covers(e))}')
        if len(set(up)) != len(up) or len(set(lo)) != len(lo):
            fails.append(f'neighbor repeats at {c.extent!r}')
        for u in c.upper_neighbors:
            if c not in u.lower_neighbors:
                fails.append(f'not converse: {u.extent!r} upper of {c.extent!r}')
            if by_ext.get(_emask(orc, u)) is not u:
                fails.append('upper neighbor is not a member of the lattice')
        for l in c.lower_neighbors:
            if c not in l.upper_neighbors:
                fails.append(f'not converse: {l.extent!r} lower of {c.extent!r}')
    for q in label_queries(orc.objects):
        base = orc.closure_o(orc.omask(q))
        want = sorted((orc.olabels(u), orc.plabels(orc.intent(u))) for u in orc.upper_covers(base))
        got = ctx.neighbors(list(q))
        if sorted((tuple(e), tuple(i)) for e, i in got) != want or len(got) != len(want):
            fails.append(f'context.neighbors({q!r}) = {got!r}, expected {want!r}')
        if q:    # repeated labels, also padded to the number of objects; a one-shot iterator
            for form in (list(q) + [q[0]] * max(1, orc.n - len(q)), iter(list(q) + list(q))):
                desc = repr(form)
                got = ctx.neighbors(form)
                if sorted((tuple(e), tuple(i)) for e, i in got) != want:
                    fails.append(f'context.neighbors({desc}) = {got!r}, expected {want!r}')
        raw = ctx.neighbors(list(q), raw=True)
        if sorted((rawmask(e), rawmask(i)) for e, i in raw) != sorted((u, orc.intent(u)) for u in orc.upper_covers(base)):
            fails.append(f'context.neighbors({q!r}, raw=True) differs from the upper covers')
    return fails


def b06(ctx, orc):
    fails = []
    lat = ctx.lattice
    cs = list(lat)
    got = [_emask(orc, c) for c in cs]
    want = orc.extents()
    if got != want:
        fails.append(f'iteration order {got} != shortlex order {want}')
    if [c.index for c in cs] != list(range(len(cs))):
        fails.append(f'index values {[c.index for c in cs]}')
    dorder = sorted(want, key=orc.longlex)
    for c in cs:
        e = _emask(orc, c)
        if e in dorder and c.dindex != dorder.index(e):
            fails.append(f'dindex of {c.extent!r} = {c.dindex}, expected {dorder.index(e)}')
        if [_emask(orc, u) for u in c.upper_neighbors] != orc.upper_covers(e):
            fails.append(f'upper_neighbors of {c.extent!r} not in shortlex order: {[u.extent for u in c.upper_neighbors]}')
        if [_emask(orc, l) for l in c.lower_neighbors] != orc.lower_covers(e):
            fails.append(f'lower_neighbors of {c.extent!r} not in longlex order: {[l.extent for l in c.lower_neighbors]}')
    if lat.infimum is not cs[0] or _emask(orc, lat.infimum) != orc.bottom():
        fails.append('infimum is not the first/least concept')
    if lat.supremum is not cs[-1] or _emask(orc, lat.supremum) != orc.full_o:
        fails.append('supremum is not the last/greatest concept')
    if any(not (lat.infimum <= c and c <= lat.supremum) for c in cs):
        fails.append('infimum/supremum are not least/greatest')
    if [_emask(orc, a) for a in lat.atoms] != orc.upper_covers(orc.bottom()):
        fails.append(f'atoms {[a.extent for a in lat.atoms]} != upper covers of the infimum')
    return fails


def b02(ctx, orc):
    fails = []
    lat = ctx.lattice
    cs = list(lat)
    by_ext = {_emask(orc, c): c for c in cs}
    for q in label_queries(orc.objects):
        if not q:
            continue
        e = orc.closure_o(orc.omask(q))
        want = (orc.olabels(e), orc.plabels(orc.intent(e)))
        for form in (list(q), tuple(reversed(q)), list(q) + list(q)):
            got = ctx[form]
            if (tuple(got[0]), tuple(got[1])) != want:
                fails.append(f'context[{form!r}] = {got!r}, expected {want!r}')
        raw = ctx.__getitem__(list(q), raw=True)
        if (rawmask(raw[0]), rawmask(raw[1])) != (e, orc.intent(e)):
            fails.append(f'context.__getitem__({q!r}, raw=True) wrong')
        if lat[list(q)] is not by_ext.get(e) or lat[tuple(q)] is not by_ext.get(e):
            fails.append(f'lattice[{q!r}] is not the member with extent {orc.olabels(e)!r}')
    for q in label_queries(orc.properties):
        x = orc.extent(orc.pmask(q))
        if q:
            want = (orc.olabels(x), orc.plabels(orc.intent(x)))
            for form in (list(q), tuple(reversed(q)), list(q) + list(q)):
                got = ctx[form]
                if (tuple(got[0]), tuple(got[1])) != want:
                    fails.append(f'context[{form!r}] = {got!r}, expected {want!r}')
            if lat[list(q)] is not by_ext.get(x):
                fails.append(f'lattice[{q!r}] is not the member with extent {orc.olabels(x)!r}')
        for form in (list(q), tuple(reversed(q))):
            got = lat(form)
            if got is not by_ext.get(x):
                fails.append(f'lattice({form!r}) is not the member with extent {orc.olabels(x)!r}')
            elif tuple(got.intent) != orc.plabels(orc.intent(x)):
                fails.append(f'lattice({form!r}).intent wrong')
    for i, c in enumerate(cs):
        if lat[i] is not c:
            fails.append(f'lattice[{i}] is not the {i}-th member in iteration order')
    if lat[()] is not cs[-1] or _emask(orc, lat[()]) != orc.full_o:
        fails.append('lattice[()] is not the top concept')
    for c in cs:
        e, i = _emask(orc, c), orc.pmask(c.intent)
        if orc.intent(e) != i or orc.extent(i) != e:
            fails.append(f'member {c.extent!r} is not a formal concept')
    return fails


def b07(ctx, orc):
    fails = []
    lat = ctx.lattice
    cs = list(lat)
    by_ext = {_emask(orc, c): c for c in cs}
    if lat.join([]) is not lat.infimum:
        fails.append('empty join is not the infimum')
    if lat.meet([]) is not lat.supremum:
        fails.append('empty meet is not the supremum')
    for ms in _multisets(cs):
        es = [_emask(orc, c) for c in ms]
        j = lat.join(iter(ms))
        mt = lat.meet(list(ms))
        if j is not by_ext.get(orc.join(es)):
            fails.append(f'join({[c.extent for c in ms]}) = {j.extent!r}, expected {orc.olabels(orc.join(es))!r}')
        if mt is not by_ext.get(orc.meet(es)):
            fails.append(f'meet({[c.extent for c in ms]}) = {mt.extent!r}, expected {orc.olabels(orc.meet(es))!r}')
        if len(fails) > 20:
            return fails
    for a in cs:
        if (a | a) is not a or (a & a) is not a:
            fails.append(f'idempotence at {a.extent!r}')
        for b in cs:
            ea, eb = _emask(orc, a), _emask(orc, b)
            jn, mt = by_ext.get(orc.join([ea, eb])), by_ext.get(orc.meet([ea, eb]))
            if a.join(b) is not jn or (a | b) is not jn:
                fails.append(f'{a.extent!r} | {b.extent!r} = {(a | b).extent!r}, expected {jn.extent if jn else None!r}')
            if a.meet(b) is not mt or (a & b) is not mt:
                fails.append(f'{a.extent!r} & {b.extent!r} = {(a & b).extent!r}, expected {mt.extent if mt else None!r}')
            if (a | b) is not (b | a) or (a & b) is not (b & a):
                fails.append(f'commutativity at {a.extent!r}, {b.extent!r}')
            if (a | (a & b)) is not a or (a & (a | b)) is not a:
                fails.append(f'absorption at {a.extent!r}, {b.extent!r}')
            le = bool(a <= b)
            if le != ((a | b) is b) or le != ((a & b) is a):
                fails.append(f'x<=y iff x|y is y iff x&y is x fails at {a.extent!r}, {b.extent!r}')
            if len(fails) > 20:
                return fails
    trip = [(a, b, c) for a in cs for b in cs for c in cs]
    if len(trip) > 600:
        trip = trip[::len(trip) // 600 + 1]
    for a, b, c in trip:
        if ((a | b) | c) is not (a | (b | c)) or ((a & b) & c) is not (a & (b & c)):
            fails.append(f'associativity at {a.extent!r}, {b.extent!r}, {c.extent!r}')
            break
    return fails


def b09(ctx, orc):
    fails = []
    lat = ctx.lattice
    cs = list(lat)
    for c in cs:          # half-consumed traversals must not change what later traversals yield
        abandon(c.upset())
        abandon(c.downset(), 2)
    abandon(lat.upset_union(cs[:2]))
    abandon(lat.downset_union(iter(cs[-2:])))
    dsorted = sorted(cs, key=lambda c: c.dindex)
    ext = {id(c): _emask(orc, c) for c in cs}
    for c in cs:
        e = ext[id(c)]
        up = list(c.upset())
        want = [d for d in cs if ext[id(d)] & e == e]
        if len(up) != len(want) or any(x is not y for x, y in zip(up, want)):
            fails.append(f'upset of {c.extent!r}: {[x.index for x in up]} != {[x.index for x in want]}')
        dn = list(c.downset())
        wantd = [d for d in dsorted if ext[id(d)] & e == ext[id(d)]]
        if len(dn) != len(wantd) or any(x is not y for x, y in zip(dn, wantd)):
            fails.append(f'downset of {c.extent!r}: {[x.dindex for x in dn]} != {[x.dindex for x in wantd]}')
    # two traversals alive at the same time, advanced alternately
    import itertools as _it
    pairs = [(cs[0], cs[0]), (cs[0], cs[-1]), (cs[len(cs) // 2], cs[0]), (cs[len(cs) // 2], cs[len(cs) // 3])]
    for a, b in pairs:
        for kind in ('upset', 'downset'):
            la, lb = [], []
            for x, y in _it.zip_longest(getattr(a, kind)(), getattr(b, kind)()):
                if x is not None:
                    la.append(x)
                if y is not None:
                    lb.append(y)
            for who, got in ((a, la), (b, lb)):
                want = list(getattr(who, kind)())
                if len(got) != len(want) or any(p is not q for p, q in zip(got, want)):
                    fails.append(f'{kind} of {who.extent!r} advanced in lockstep with another traversal: '
                                 f'{[x.index for x in got]} != {[x.index for x in want]}')
        ua, ub = [], []
        for x, y in _it.zip_longest(lat.upset_union([a, b]), lat.downset_union([b, a])):
            if x is not None:
                ua.append(x)
            if y is not None:
                ub.append(y)
        if [x.index for x in ua] != [x.index for x in lat.upset_union([a, b])] or \
                [x.index for x in ub] != [x.index for x in lat.downset_union([b, a])]:
            fails.append(f'upset_union/downset_union of {a.extent!r}, {b.extent!r} advanced in lockstep differ from a lone traversal')
    # large seed collections: everything, every level of equal extent size (antichains), with repeats, reversed
    levels = {}
    for c in cs:
        levels.setdefault(len(c.extent), []).append(c)
    big = [list(cs), list(reversed(cs)), cs[::2] + cs[::3]] + [lv for lv in levels.values() if len(lv) > 2] + \
        [lv[::-1] + lv[:1] for lv in levels.values() if len(lv) > 3]
    for ms in big + _multisets(cs, cap=250):
        es = [ext[id(c)] for c in ms]
        for form in (list(ms), iter(list(ms))):
            up = list(lat.upset_union(form))
            want = [d for d in cs if any(ext[id(d)] & e == e for e in es)]
            if len(up) != len(want) or any(x is not y for x, y in zip(up, want)):
                fails.append(f'upset_union({[c.index for c in ms]}): {[x.index for x in up]} != {[x.index for x in want]}')
        dn = list(lat.downset_union(list(ms)))
        wantd = [d for d in dsorted if any(ext[id(d)] & e == ext[id(d)] for e in es)]
        if len(dn) != len(wantd) or any(x is not y for x, y in zip(dn, wantd)):
            fails.append(f'downset_union({[c.index for c in ms]}): {[x.dindex for x in dn]} != {[x.dindex for x in wantd]}')
        if len(fails) > 20:
            break
    return fails


def b10(ctx, orc):
    fails = []
    lat = ctx.lattice
    cs = list(lat)
    ext = {id(c): _emask(orc, c) for c in cs}
    for c in cs:
        e = ext[id(c)]
        if tuple(c.objects) != orc.object_labels(e):
            fails.append(f'objects label of {c.extent!r} = {c.objects!r}, expected {orc.object_labels(e)!r}')
        if tuple(c.properties) != orc.property_labels(e):
            fails.append(f'properties label of {c.extent!r} = {c.properties!r}, expected {orc.property_labels(e)!r}')
        down = [d for d in cs if ext[id(d)] & e == ext[id(d)]]
        up = [d for d in cs if ext[id(d)] & e == e]
        for rep in (1, 2):    # through the traversal API as well, twice
            if sorted(o for d in c.downset() for o in d.objects) != sorted(c.extent):
                fails.append(f'extent of {c.extent!r} is not the union of object labels over c.downset() (call {rep})')
            if sorted(p for d in c.upset() for p in d.properties) != sorted(c.intent):
                fails.append(f'intent of {c.extent!r} is not the union of property labels over c.upset() (call {rep})')
        if sorted(o for d in down for o in d.objects) != sorted(c.extent):
            fails.append(f'extent of {c.extent!r} is not the union of object labels in its downset')
        if sorted(p for d in up for p in d.properties) != sorted(c.intent):
            fails.append(f'intent of {c.extent!r} is not the union of property labels in its upset')
        want_atoms = [a for a in lat.atoms if _emask(orc, a) & e == _emask(orc, a)]
        got_atoms = list(c.atoms)
        if len(got_atoms) != len(want_atoms) or any(a not in want_atoms for a in got_atoms) \
                or len({id(a) for a in got_atoms}) != len(got_atoms):
            fails.append(f'atoms of {c.extent!r}: {[a.extent for a in got_atoms]}')
    for o in orc.objects:
        if sum(list(c.objects).count(o) for c in cs) != 1:
            fails.append(f'object {o!r} does not label exactly one concept')
    for p in orc.properties:
        if sum(list(c.properties).count(p) for c in cs) != 1:
            fails.append(f'property {p!r} does not label exactly one concept')
    return fails


def b18(ctx, orc):
    fails = []
    lat = ctx.lattice
    BIG = 12      # intents beyond this size: the full enumeration (2^size subsets) is replaced by a prefix check
    for c in lat:
        abandon(iter(c.attributes()))
    for c in lat:
        e = _emask(orc, c)
        full_intent = orc.plabels(orc.intent(e))
        big = len(full_intent) > BIG and e != 0
        if big:
            attrs = [tuple(a) for a in itertools.islice(c.attributes(), 40)]
            keys = [(len(a), tuple(orc.properties.index(p) for p in a)) for a in attrs]
            if keys != sorted(keys) or len(set(attrs)) != len(attrs):
                fails.append(f'attributes() of {c.extent!r}: first sets not in shortlex order / repeated')
            for a in attrs:
                if orc.extent(orc.pmask(a)) != e or not set(a) <= set(full_intent):
                    fails.append(f'attributes() of {c.extent!r} yields {a!r} which does not generate the concept')
            # the shortest generating sets by brute force up to size 2
            small = [orc.plabels(mask(cmb)) for k in range(3) for cmb in itertools.combinations(bits(orc.intent(e)), k)
                     if orc.extent(mask(cmb)) == e]
            if small and attrs[:len(small)] != small[:len(attrs)]:
                fails.append(f'attributes() of {c.extent!r} starts with {attrs[:3]!r}, expected {small[:3]!r}')
        else:
            attrs = [tuple(a) for a in c.attributes()]
            if e == 0:
                if attrs != [full_intent]:
                    fails.append(f'attributes() of the empty-extent concept = {attrs!r}, expected [{full_intent!r}]')
            else:
                want = [orc.plabels(g) for g in orc.generators(e)]
                if attrs != want:
                    fails.append(f'attributes() of {c.extent!r} = {attrs!r}, expected {want!r}')
                for a in attrs[:64]:
                    if lat(a) is not c:
                        fails.append(f'lattice({a!r}) does not regenerate {c.extent!r}')
        mn = tuple(c.minimal())
        if c is lat.infimum:
            if mn != full_intent:
                fails.append(f'infimum.minimal() = {mn!r}, expected its full intent {full_intent!r}')
        elif attrs and mn != attrs[0]:
            fails.append(f'minimal() of {c.extent!r} = {mn!r}, expected {attrs[0]!r}')
    return fails


import re
_NODE = re.compile(r'^\t(c\d+)$')
_EDGE = re.compile(r'^\t(c\d+) -> (c\d+)(?: \[(.*)\])?$')


def _unquote(s):
    if s.startswith('"') and s.endswith('"'):
        return s[1:-1].replace('\\"', '"')
    return s


def parse_dot(src):
    nodes, edges, labels = [], [], []
    for line in src.splitlines():
        mn = _NODE.match(line)
        if mn:
            nodes.append(mn.group(1))
            continue
        me = _EDGE.match(line)
        if me:
            a, b, attrs = me.groups()
            if attrs is None:
                edges.append((a, b))
            else:
                d = dict((k, _unquote(v)) for k, v in re.findall(r'(\w+)=("(?:[^"\\]|\\.)*"|[^\s\]]+)', attrs))
                labels.append((a, b, d))
    return nodes, edges, labels


def b20(ctx, orc):
    fails = []
    lat = ctx.lattice
    cs = list(lat)
    custom_o = lambda xs: '+'.join(xs) + '!'
    custom_p = lambda xs: '/'.join(reversed(xs))
    forms = ((' '.join, ' '.join, 'default'), (custom_o, custom_p, 'custom'),
             (custom_o, ' '.join, 'custom-object-only'), (' '.join, custom_p, 'custom-property-only'))
    # every form twice: in between the caller customises the drawing it was handed (extra node attributes, an extra
    # edge) -- later drawings of the same lattice must not carry those edits
    again = tuple((a, b, t + ' (after the caller edited an earlier drawing)') for a, b, t in forms)
    for mo, mp, tag in tuple(x for pair in zip(forms, again) for x in pair) + again:
        kw = {}
        if mo is custom_o:
            kw['make_object_label'] = mo
        if mp is custom_p:
            kw['make_property_label'] = mp
        dot = lat.graphviz(**kw)
        nodes, edges, labels = parse_dot(dot.source)
        if sorted(nodes) != sorted(f'c{c.index}' for c in cs) or len(set(nodes)) != len(cs):
            fails.append(f'{tag}: nodes {nodes} != one per concept')
        want_edges = sorted((f'c{c.index}', f'c{l.index}') for c in cs for l in cs
                            if orc.omask(l.extent) in orc.lower_covers(orc.omask(c.extent)))
        if sorted(edges) != want_edges:
            fails.append(f'{tag}: edges {sorted(edges)} != covering pairs {want_edges}')
        want_labels = []
        for c in cs:
            e = orc.omask(c.extent)
            ol, pl = orc.object_labels(e), orc.property_labels(e)
            if ol:
                want_labels.append((f'c{c.index}', 'headlabel', mo(ol)))
            if pl:
                want_labels.append((f'c{c.index}', 'taillabel', mp(pl)))
        got_labels = []
        for a, b, d in labels:
            if a != b:
                fails.append(f'{tag}: attributed edge between different nodes {a} -> {b}')
            for k in ('headlabel', 'taillabel'):
                if k in d:
                    got_labels.append((a, k, d[k]))
        if sorted(got_labels) != sorted(want_labels):
            fails.append(f'{tag}: label edges {sorted(got_labels)} != {sorted(want_labels)}')
        try:
            dot.node(f'c{cs[-1].index}', color='red')
            dot.edge(f'c{cs[0].index}', f'c{cs[-1].index}', style='dashed')
            dot.body.append('\tjunk\n')
        except (AttributeError, TypeError):
            pass
    return fails


# -- C16 ---------------------------------------------------------------------------------------------------

_KINDS = {(1, 0, 0, 1): 'equivalent', (0, 1, 1, 0): 'complement', (0, 1, 1, 1): 'incompatible',
          (1, 0, 1, 1): 'implication', (1, 1, 0, 1): 'replication', (1, 1, 1, 0): 'subcontrary',
          (1, 1, 1, 1): 'orthogonal'}
_RANK = {'equivalent': 1, 'complement': 2, 'incompatible': 3, 'implication': 4, 'subcontrary': 6, 'orthogonal': 7,
         'contradiction': -2, 'tautology': -1, 'contingency': 0}


def b16(ctx, orc):
    fails = []
    cols = [[orc.table[i][j] for i in range(orc.n)] for j in range(orc.m)]
    cont = [j for j in range(orc.m) if any(cols[j]) and not all(cols[j])]
    want_bin = []
    for a, b in itertools.combinations(cont, 2):
        occ = tuple(int(any(x == va and y == vb for x, y in zip(cols[a], cols[b])))
                    for va, vb in ((True, True), (True, False), (False, True), (False, False)))
        kind = _KINDS[occ]
        left, right = orc.properties[a], orc.properties[b]
        if kind == 'replication':
            kind, left, right = 'implication', right, left
        want_bin.append((kind, left, right))
    want_un = [('tautology' if all(c) else 'contradiction' if not any(c) else 'contingency', orc.properties[j])
               for j, c in enumerate(cols)]
    for include_unary in (False, True, False, True):
        rel = ctx.relations(include_unary=include_unary)
        got = [(r.kind, r.left, r.right) if r.__class__.binary else (r.kind, r.left) for r in rel]
        raw = (want_un if include_unary else []) + want_bin
        want = [x for _, x in sorted(enumerate(raw), key=lambda t: (_RANK[t[1][0]], t[0]))]
        if got != want:
            fails.append(f'relations(include_unary={include_unary}) = {got!r}, expected {want!r}')
        for label, f in (('str', lambda: str(rel)), ('tostring', lambda: rel.tostring())):
            try:
                if not isinstance(f(), str):
                    fails.append(f'{label}() does not return a string')
            except Exception as e:
                fails.append(f'{label}(relations(include_unary={include_unary})) with {len(rel)} entries raised '
                             f'{type(e).__name__}: {e}')
        try:        # the caller edits the list it was handed: later calls must not be affected
            rel.reverse()
            del rel[:]
        except (AttributeError, TypeError):
            pass
    return fails


# -- C19 ---------------------------------------------------------------------------------------------------

def ctor_valid(objects, properties, rows):
    return bool(objects) and bool(properties) and len(set(objects)) == len(objects) \
        and len(set(properties)) == len(properties) and not set(objects) & set(properties) \
        and len(rows) == len(objects) and all(len(r) == len(properties) for r in rows)


def b19_ctor(concepts, objects, properties, rows):
    fails = []
    valid = ctor_valid(objects, properties, rows)
    try:
        c = concepts.Context(objects, properties, [tuple(r) for r in rows])
    except ValueError:
        if valid:
            fails.append(f'valid input rejected: {objects!r} {properties!r} {rows!r}')
        return fails
    except Exception as e:
        return [f'raised {type(e).__name__} instead of ValueError for {objects!r} {properties!r} {rows!r}: {e}']
    if not valid:
        return [f'invalid input accepted: {objects!r} {properties!r} {rows!r}']
    if tuple(c.objects) != tuple(objects) or tuple(c.properties) != tuple(properties) \
            or [tuple(bool(x) for x in r) for r in c.bools] != [tuple(bool(x) for x in r) for r in rows]:
        fails.append(f'accepted input not reproduced: {c.objects!r} {c.properties!r} {c.bools!r}')
    first = c.bools
    try:
        first.reverse()
        first.append(('junk',))
    except (AttributeError, TypeError):
        pass
    if [tuple(bool(x) for x in r) for r in c.bools] != [tuple(bool(x) for x in r) for r in rows]:
        fails.append(f'accepted input no longer reproduced after the caller modified an earlier bools result: {c.bools!r}')
    return fails


def fromdict_valid(d, flags):
    for k in ('objects', 'properties', 'context'):
        if k not in d:
            return False
    o, p, ctx = d['objects'], d['properties'], d['context']
    if not all(isinstance(x, str) for x in list(o) + list(p)):
        return False
    if len(ctx) != len(o):
        return False
    if flags.get('require_lattice') and 'lattice' not in d:
        return False
    if d.get('lattice') is not None and not d['lattice']:
        return False
    for r in ctx:
        if not all(isinstance(i, int) and not isinstance(i, bool) for i in r):
            return False
        if len(set(r)) != len(r) or any(i < 0 or i >= len(p) for i in r):
            return False
    return ctor_valid(o, p, [[None] * len(p) for _ in ctx])


def b19_fromdict(concepts, d, flags):
    valid = fromdict_valid(d, flags)
    try:     # an earlier valid, wider dict in the same process (see c19.unit_fromdict)
        wide = list(range(len(d.get('properties', ())) + 2))
        wrows = [[]] + [[i] for i in wide] + [[i, j] for i in wide for j in wide if i != j]
        concepts.Context.fromdict({'objects': [f'w{k}' for k in range(len(wrows))],
                                   'properties': [f'v{j}' for j in wide], 'context': wrows})
    except Exception:
        pass
    try:
        c = concepts.Context.fromdict(d, **flags)
    except ValueError:
        return [f'valid serialized dict rejected: {d!r} {flags!r}'] if valid else []
    except Exception as e:
        return [f'raised {type(e).__name__} instead of ValueError for {d!r} {flags!r}: {e}']
    if not valid:
        return [f'invalid serialized dict accepted: {d!r} {flags!r}']
    want = [tuple(j in r for j in range(len(d['properties']))) for r in d['context']]
    if tuple(c.objects) != tuple(d['objects']) or tuple(c.properties) != tuple(d['properties']) \
            or [tuple(bool(x) for x in r) for r in c.bools] != want:
        return [f'accepted dict not reproduced: {c.objects!r} {c.properties!r} {c.bools!r}']
    return []


# -- C14 (per table part) ----------------------------------------------------------------------------------

def b14(ctx, orc):
    import concepts
    fails = []
    trip = (orc.objects, orc.properties, orc.table)
    d = ctx.definition()
    if (tuple(d.objects), tuple(d.properties), [tuple(bool(x) for x in r) for r in d.bools]) != trip:
        fails.append(f'context.definition() = {d.objects!r} {d.properties!r} {d.bools!r}')
    c2 = concepts.Context(*d)
    if not (c2 == ctx) or c2 != ctx:
        fails.append('Context(*context.definition()) != context')
    d2 = c2.definition()
    if not (d2 == d) or d2 != d:
        fails.append('Context(*definition).definition() != definition')
    d3 = concepts.Definition(*trip)
    if not (concepts.Context(*d3).definition() == d3):
        fails.append('Definition -> Context -> Definition is not the identity')
    if tuple(ctx.shape) != (orc.n, orc.m) or tuple(d.shape) != (orc.n, orc.m):
        fails.append(f'shape {ctx.shape!r} / {d.shape!r}')
    import fractions
    want = fractions.Fraction(sum(sum(r) for r in orc.table), orc.n * orc.m)
    if ctx.fill_ratio != want or d.fill_ratio != want:
        fails.append(f'fill_ratio {ctx.fill_ratio} / {d.fill_ratio}, expected {want}')
    if ctx.tostring() != d.tostring() or str(d) != ctx.tostring():
        fails.append('table string differs between context and definition')
    if ctx.crc32() != d.crc32():
        fails.append('crc32 differs between context and definition')
    # equality iff triples equal
    same = concepts.Context(*trip)
    if not (same == ctx) or same != ctx or not (ctx == ctx.copy()):
        fails.append('contexts with equal triples compare unequal')
    variants = []
    t2 = [list(r) for r in orc.table]
    t2[-1][-1] = not t2[-1][-1]
    variants.append((orc.objects, orc.properties, [tuple(r) for r in t2]))
    variants.append((orc.objects[:-1] + (orc.objects[-1] + '_',), orc.properties, orc.table))
    variants.append((orc.objects, orc.properties[:-1] + (orc.properties[-1] + '_',), orc.table))
    if orc.n > 1:
        variants.append((orc.objects[::-1], orc.properties, orc.table[::-1]))
    if orc.m > 1:
        variants.append((orc.objects, orc.properties[::-1], [r[::-1] for r in orc.table]))
    for v in variants:
        other = concepts.Context(*v)
        if (v[0], v[1], list(v[2])) != (trip[0], trip[1], list(trip[2])) and (other == ctx or not (other != ctx)):
            fails.append(f'contexts with different triples compare equal: {v!r}')
    if ctx == trip or not (ctx != trip):
        pass   # comparison with non-contexts is not specified
    return fails


# -- C11 ---------------------------------------------------------------------------------------------------

def expected_summary(orc):
    ext = orc.extents()
    dorder = sorted(ext, key=orc.longlex)
    atoms = orc.upper_covers(orc.bottom())
    out = []
    for k, e in enumerate(ext):
        out.append((orc.olabels(e), orc.plabels(orc.intent(e)), k, dorder.index(e),
                    [orc.olabels(u) for u in orc.upper_covers(e)], [orc.olabels(l) for l in orc.lower_covers(e)],
                    orc.object_labels(e), orc.property_labels(e), sorted(orc.olabels(a) for a in atoms if a & e == a)))
    return out


def lattice_summary(lat):
    return [(tuple(c.extent), tuple(c.intent), c.index, c.dindex, [tuple(u.extent) for u in c.upper_neighbors],
             [tuple(l.extent) for l in c.lower_neighbors], tuple(c.objects), tuple(c.properties),
             sorted(tuple(a.extent) for a in c.atoms)) for c in lat]


def expected_dict(orc):
    ext = orc.extents()
    idx = {e: k for k, e in enumerate(ext)}
    return {'objects': orc.objects, 'properties': orc.properties,
            'context': [tuple(j for j in range(orc.m) if orc.table[i][j]) for i in range(orc.n)],
            'lattice': [(bits(e), bits(orc.intent(e)), tuple(idx[u] for u in orc.upper_covers(e)),
                         tuple(idx[l] for l in orc.lower_covers(e))) for e in ext]}


def _norm(d):
    out = {'objects': tuple(d['objects']), 'properties': tuple(d['properties']),
           'context': [tuple(int(i) for i in r) for r in d['context']]}
    if 'lattice' in d:
        out['lattice'] = [tuple(tuple(int(i) for i in part) for part in item) for item in d['lattice']]
    return out


def _perms(k, rnd_stride=1):
    if k <= 5:
        return list(itertools.permutations(range(k)))
    ident = list(range(k))
    out = [tuple(reversed(ident)), tuple(ident[1:] + ident[:1])]
    for i in range(k - 1):
        p = list(ident)
        p[i], p[i + 1] = p[i + 1], p[i]
        out.append(tuple(p))
    return out


def b11(ctx, orc, light=False):
    import concepts
    import io
    import json
    import os
    import tempfile
    C = concepts.Context
    fails = []
    want = expected_dict(orc)
    summary = expected_summary(orc)
    fresh = C(orc.objects, orc.properties, orc.table)
    lazy = _norm(fresh.todict(ignore_lattice=None))
    if 'lattice' in lazy or lazy != {k: v for k, v in _norm(want).items() if k != 'lattice'}:
        fails.append(f'todict(ignore_lattice=None) before the lattice exists: {lazy!r}')
    d = ctx.todict()
    if _norm(d) != _norm(want):
        fails.append(f'todict() = {_norm(d)!r}, expected the documented encoding {_norm(want)!r}')
    d0 = ctx.todict(ignore_lattice=True)
    if 'lattice' in d0 or _norm(d0) != {k: v for k, v in _norm(want).items() if k != 'lattice'}:
        fails.append(f'todict(ignore_lattice=True) = {d0!r}')
    if _norm(ctx.todict(ignore_lattice=None)) != _norm(want):
        fails.append('todict(ignore_lattice=None) with a present lattice omits or changes it')

    def check_loaded(c2, how, stored=True, full=False):
        if not (c2 == fresh) or c2 != fresh:
            fails.append(f'{how}: reloaded context differs')
            return
        if stored != ('lattice' in c2.__dict__):
            fails.append(f'{how}: stored lattice {"missing" if stored else "unexpectedly present"}')
        if lattice_summary(c2.lattice) != summary:
            fails.append(f'{how}: lattice differs from the recomputed one: {lattice_summary(c2.lattice)!r} != {summary!r}')
        if _norm(c2.todict()) != _norm(want):
            fails.append(f'{how}: todict() of the reloaded context differs')
        if full and not fails:
            for bat in (b02, b03, b05, b06, b07, b09, b10, b18, b20):
                for f in bat(c2, orc)[:2]:
                    fails.append(f'{how}: stored lattice answers differently: {f}')

    check_loaded(C.fromdict(d), 'fromdict(todict())', full=not light)
    check_loaded(C.fromdict(d, raw=True), 'fromdict(todict(), raw=True)')
    check_loaded(C.fromdict(d, ignore_lattice=True), 'fromdict(ignore_lattice=True)', stored=False)
    check_loaded(C.fromdict(d, require_lattice=True), 'fromdict(require_lattice=True)')
    check_loaded(C.fromdict(d0), 'fromdict(todict(ignore_lattice=True))', stored=False)
    try:
        C.fromdict(d0, require_lattice=True)
        fails.append('fromdict(require_lattice=True) accepted a dict without lattice')
    except ValueError:
        pass
    # json: text and file object, path
    buf = io.StringIO()
    ctx.tojson(buf)
    text = buf.getvalue()
    if _norm(json.loads(text)) != _norm(want):
        fails.append('tojson text is not the documented encoding')
    check_loaded(C.fromjson(io.StringIO(text)), 'fromjson(file object)', full=not light)
    buf = io.StringIO()
    ctx.tojson(buf, ignore_lattice=True, indent=2, sort_keys=False)
    check_loaded(C.fromjson(io.StringIO(buf.getvalue())), 'fromjson(ignore_lattice dump)', stored=False)
    tmp = tempfile.mkdtemp(prefix='verif-c11-')
    try:
        pth = os.path.join(tmp, 'c.json')
        ctx.tojson(pth)
        check_loaded(C.fromjson(pth), 'fromjson(path)')
        check_loaded(C.fromjson(pth, raw=True), 'fromjson(path, raw=True)')
        check_loaded(C.fromjson(pth, ignore_lattice=True), 'fromjson(path, ignore_lattice=True)', stored=False)
        # python-literal string and file
        lit = ctx.tostring(frmat='python-literal')
        check_loaded(C.fromstring(lit, frmat='python-literal'), 'fromstring(python-literal)', full=not light)
        lit0 = fresh.tostring(frmat='python-literal')
        check_loaded(C.fromstring(lit0, frmat='python-literal'), 'fromstring(python-literal without lattice)', stored=False)
        pth2 = os.path.join(tmp, 'c.py')
        ctx.tofile(pth2, frmat='python-literal')
        check_loaded(C.fromfile(pth2, frmat='python-literal'), 'fromfile(python-literal)')
    finally:
        import shutil
        shutil.rmtree(tmp, ignore_errors=True)
    if not light:
        # the same table under labels that need escaping in the text forms
        nasty_o = ['C:\\temp', "it's", 'say "x"', 'tab\there', 'new\nline', 'é ü', 'a,b', '  pad ', '\\', '{}']
        nasty_p = ['C:\\new', "p's", '"', 'p\tq', 'p\nq', 'ß', ',', ' ', 'back\\slash\\', '[]']
        if orc.n <= len(nasty_o) and orc.m <= len(nasty_p):
            no, npp = nasty_o[:orc.n], nasty_p[:orc.m]
            c0 = C(no, npp, orc.table)
            c0.lattice
            reloads = {'fromdict': C.fromdict(c0.todict()),
                       'python-literal': C.fromstring(c0.tostring(frmat='python-literal'), frmat='python-literal')}
            buf = io.StringIO()
            c0.tojson(buf)
            reloads['json'] = C.fromjson(io.StringIO(buf.getvalue()))
            for how, c1 in reloads.items():
                if not (c1 == c0) or tuple(c1.objects) != tuple(no) or tuple(c1.properties) != tuple(npp):
                    fails.append(f'{how} round trip with labels that need escaping: {c1.objects!r} {c1.properties!r}')
                elif lattice_summary(c1.lattice) != lattice_summary(c0.lattice):
                    fails.append(f'{how} round trip with labels that need escaping: lattice differs')
    # raw=True under permutations of the stored sequences
    L = _norm(want)['lattice']
    k = len(L)
    for pi in _perms(k):
        newl = [None] * k
        for old, item in enumerate(L):
            e, i, up, lo = item
            newl[pi[old]] = (tuple(reversed(e)), tuple(reversed(i)), tuple(reversed([pi[u] for u in up])),
                             tuple(reversed([pi[x] for x in lo])))
        d2 = dict(d, lattice=newl)
        try:
            c3 = C.fromdict(d2, raw=True)
        except Exception as e:
            fails.append(f'fromdict(raw=True) with stored order {pi}: {type(e).__name__}: {e}')
            break
        if lattice_summary(c3.lattice) != summary or _norm(c3.todict()) != _norm(want):
            fails.append(f'fromdict(raw=True) with stored order {pi}: lattice differs: {lattice_summary(c3.lattice)!r}')
            break
        npi = getattr(b11, '_n', 0)
        b11._n = npi + 1
        if npi % 4 == 0 or pi != tuple(range(k)) and npi % 4 == 1:     # the permuted encoding through the JSON form too
            c4 = C.fromjson(io.StringIO(json.dumps(d2)), raw=True)
            if lattice_summary(c4.lattice) != summary or _norm(c4.todict()) != _norm(want):
                fails.append(f'fromjson(raw=True) with stored order {pi}: lattice differs')
                break
    return fails


# -- C15 ---------------------------------------------------------------------------------------------------

_SYMMETRIC = {'equivalent', 'complement', 'incompatible', 'subcontrary', 'orthogonal'}


def label_structure(ctx):
    """everything C15 talks about, as statements about labels (independent of row/column positions)"""
    lat = ctx.lattice
    cs = list(lat)
    key = lambda c: (frozenset(c.extent), frozenset(c.intent))
    concepts_ = frozenset(key(c) for c in cs)
    covers = frozenset((key(c), key(u)) for c in cs for u in c.upper_neighbors)
    lower = frozenset((key(l), key(c)) for c in cs for l in c.lower_neighbors)
    joins = {(key(a), key(b)): key(a | b) for a in cs for b in cs}
    meets = {(key(a), key(b)): key(a & b) for a in cs for b in cs}
    rels = frozenset((r.kind, frozenset((r.left, r.right))) if r.kind in _SYMMETRIC else (r.kind, r.left, r.right)
                     for r in ctx.relations())
    return {'concepts': concepts_, 'covers': covers, 'covers_from_lower': lower, 'joins': joins, 'meets': meets,
            'relations': rels, 'count': len(cs)}


def _perm_list(k):
    if k <= 3:
        return list(itertools.permutations(range(k)))
    ident = list(range(k))
    out = [tuple(ident), tuple(reversed(ident)), tuple(ident[1:] + ident[:1])]
    for i in (range(k - 1) if k <= 6 else [0, k // 2, min(k - 2, 63)]):
        p = list(ident)
        p[i], p[i + 1] = p[i + 1], p[i]
        out.append(tuple(p))
    return out


def b15(ctx, orc, light=False):
    import concepts
    C = concepts.Context
    fails = []
    base = label_structure(ctx)
    if base['covers'] != base['covers_from_lower']:
        fails.append('upper and lower neighbor links disagree')
    n, m = orc.n, orc.m
    idr, idc = tuple(range(n)), tuple(range(m))
    rperms, cperms = _perm_list(n), _perm_list(m)
    if light:
        rperms, cperms = rperms[:3], cperms[:3]
    combos = [(rp, idc) for rp in rperms] + [(idr, cp) for cp in cperms] + \
        [(rp, cp) for rp, cp in zip(rperms[1:], reversed(cperms[1:]))]
    for rp, cp in combos:
        for _once in (0,):
            if rp == idr and cp == idc:
                continue
            objs = [orc.objects[i] for i in rp]
            props = [orc.properties[j] for j in cp]
            table = [tuple(orc.table[i][j] for j in cp) for i in rp]
            st = label_structure(C(objs, props, table))
            for k in ('concepts', 'covers', 'joins', 'meets', 'relations', 'count'):
                if st[k] != base[k]:
                    fails.append(f'rows permuted {rp}, columns permuted {cp}: {k} changed as statements about labels')
                    break
        if len(fails) > 5:
            return fails
    # transposition: exactly the dual lattice
    tr = C(orc.properties, orc.objects, [tuple(orc.table[i][j] for i in range(n)) for j in range(m)])
    st = label_structure(tr)
    swap = lambda k: (k[1], k[0])
    if st['concepts'] != frozenset(swap(k) for k in base['concepts']):
        fails.append('transposed: concepts are not the swapped concepts')
    if st['covers'] != frozenset((swap(u), swap(c)) for c, u in base['covers']):
        fails.append('transposed: covering relation is not reversed')
    if st['joins'] != {(swap(a), swap(b)): swap(v) for (a, b), v in base['meets'].items()} or \
            st['meets'] != {(swap(a), swap(b)): swap(v) for (a, b), v in base['joins'].items()}:
        fails.append('transposed: join and meet are not exchanged')
    tl = [c for c in tr.lattice]
    bl = [c for c in ctx.lattice]
    if len(tl) != len(bl):
        fails.append('transposed: number of concepts differs')
    # transposition through Definition: dual lattice, and editing the transpose afterwards leaves the original alone
    d0 = ctx.definition()
    dt = d0.transposed()
    if label_structure(C(*dt))['concepts'] != st['concepts'] or label_structure(C(*(-d0)))['concepts'] != st['concepts']:
        fails.append('Definition.transposed(): not the dual lattice')
    dt.add_object('copy_of_' + dt.objects[0], [p for p, b in zip(dt.properties, dt.bools[0]) if b])
    dt.rename_property(dt.properties[-1], 'renamed')
    if label_structure(C(*d0))['concepts'] != base['concepts']:
        fails.append('editing a transposed definition changed the lattice of the original')
    # duplicated row / duplicated column / full column
    intents = frozenset(k[1] for k in base['concepts'])
    extents = frozenset(k[0] for k in base['concepts'])
    for i in (range(n) if n <= 6 else [0, n - 1, min(n - 1, 63)]):
        for pos in {0, i + 1, n}:
            objs = list(orc.objects)
            table = [tuple(r) for r in orc.table]
            objs.insert(pos, 'copy_of_' + orc.objects[i])
            table.insert(pos, tuple(orc.table[i]))
            st = label_structure(C(objs, orc.properties, table))
            if frozenset(k[1] for k in st['concepts']) != intents or st['count'] != base['count']:
                fails.append(f'copy of row {i} inserted at {pos}: family of intents / number of concepts changed')
    for j in (range(m) if m <= 6 else [0, m - 1, min(m - 1, 63)]):
        for pos in {0, j + 1, m}:
            props = list(orc.properties)
            props.insert(pos, 'copy_of_' + orc.properties[j])
            table = [list(r) for r in orc.table]
            for i in range(n):
                table[i].insert(pos, orc.table[i][j])
            st = label_structure(C(orc.objects, props, [tuple(r) for r in table]))
            if frozenset(k[0] for k in st['concepts']) != extents or st['count'] != base['count']:
                fails.append(f'copy of column {j} inserted at {pos}: family of extents / number of concepts changed')
    for pos in {0, m}:
        props = list(orc.properties)
        props.insert(pos, 'full_column')
        table = [list(r) for r in orc.table]
        for i in range(n):
            table[i].insert(pos, True)
        st = label_structure(C(orc.objects, props, [tuple(r) for r in table]))
        if frozenset(k[0] for k in st['concepts']) != extents or st['count'] != base['count']:
            fails.append(f'full column inserted at {pos}: family of extents / number of concepts changed')
    # relabelling through a Definition: swap two labels via a temporary name (rename back and forth), move rows/columns
    def relabel(st, mp):
        f = lambda k: (frozenset(mp.get(x, x) for x in k[0]), frozenset(mp.get(x, x) for x in k[1]))
        return {'concepts': frozenset(f(k) for k in st['concepts']),
                'covers': frozenset((f(a), f(b)) for a, b in st['covers']), 'count': st['count']}
    d = ctx.definition()
    mp = {}
    if n > 1:
        a, b = orc.objects[0], orc.objects[-1]
        d.rename_object(a, 'tmp_label')
        d.rename_object(b, a)
        d.rename_object('tmp_label', b)
        mp.update({a: b, b: a})
        d.move_object(a, 0)
    if m > 1:
        a, b = orc.properties[0], orc.properties[-1]
        d.rename_property(a, 'tmp_label')
        d.rename_property(b, a)
        d.rename_property('tmp_label', b)
        mp.update({a: b, b: a})
        d.move_property(b, m - 1)
    st = label_structure(C(*d))
    want = relabel(base, mp)
    for k in ('concepts', 'covers', 'count'):
        if st[k] != want[k]:
            fails.append(f'labels swapped through Definition.rename_*/move_*: {k} is not the relabelled structure')
            break
    # the FCbO generators see the same invariances (sets of concepts)
    from concepts import algorithms
    for gen_ in (algorithms.fast_generate_from, algorithms.fcbo_dual):
        got = frozenset((frozenset(e.members()), frozenset(i.members())) for e, i in gen_(ctx))
        if got != base['concepts']:
            fails.append(f'{gen_.__name__} disagrees with the lattice on this table')
        got = frozenset((frozenset(i.members()), frozenset(e.members())) for e, i in gen_(tr))
        if got != base['concepts']:
            fails.append(f'{gen_.__name__} on the transposed table is not the dual')
    return fails


def probe_case(case):
    """A small-lattice table on which lattice construction and lookups derive exactly the query set of a kernel
    counterexample (and its prefixes), so that a width-dependent kernel defect shows through the public API."""
    side, labels = case.get('side'), case.get('labels') or []
    names = case['objects'] if side == 'intension' else case['properties']
    idx = [names.index(x) for x in labels if x in names]
    if not idx:
        return None
    k = len(names)
    sets = [{i} for i in idx] + [set(idx[:j]) for j in range(2, len(idx) + 1)]
    if len(sets) > 40:
        sets = [{i} for i in idx[:20]] + [set(idx)]
    own = [f'o{i}' for i in range(k)] if side == 'intension' else [f'p{i}' for i in range(k)]
    other = [f'q{j}' for j in range(len(sets))] if side == 'intension' else [f'r{j}' for j in range(len(sets))]
    if side == 'intension':
        table = [[i in sets[j] for j in range(len(sets))] for i in range(k)]
        return {'objects': own, 'properties': other, 'table': table}
    table = [[i in sets[j] for i in range(k)] for j in range(len(sets))]
    return {'objects': other, 'properties': own, 'table': table}


def decoys(concepts, objects, properties, table, battery=None):
    """Other live contexts that are created AND used before the context under observation is queried: the same labels
    with the complemented table, and other labels with a rotated table.  Nothing one context does may change what
    another answers (shared caches, class-level state)."""
    out = []
    n, m = len(objects), len(properties)
    t1 = [tuple(not c for c in row) for row in table]
    t2 = [tuple(table[(i + 1) % n][(j + 1) % m] for j in range(m)) for i in range(n)]
    def flip(i, j):
        return [tuple((not c) if (a, b) == (i, j) else c for b, c in enumerate(row)) for a, row in enumerate(table)]
    # neighbouring tables (one cell flipped) share most bit patterns with the observed one but not its derivations
    variants = [(objects, properties, t1), ([f'x{o}' for o in objects], [f'y{p}' for p in properties], t2),
                (objects, properties, flip(0, 0)), (objects, properties, flip(n - 1, m - 1))]
    for k, (objs, props, t) in enumerate(variants):
        d = concepts.Context(objs, props, t)
        d.lattice
        if battery is not None and n <= 12 and m <= 12 and (k < 2 or not getattr(battery, 'heavy', False)):
            try:
                battery(d, Oracle(objs, props, t))
            except Exception:
                pass
        out.append(d)
    return out


def make(concepts, case):
    """(context, oracle) for a replay case with objects/properties/table"""
    # crosses are handed over as truthy values of three kinds (True, 2, 3), blanks as False / 0 -- as in the symbolic runs
    rows = [tuple(((True, 2, 3)[(i + 2 * j) % 3] if c else (False if (i + 2 * j) % 3 == 0 else 0))
                  for j, c in enumerate(r)) for i, r in enumerate(case['table'])]
    ctx = concepts.Context(case['objects'], case['properties'], rows)
    return ctx, Oracle(case['objects'], case['properties'], case['table'])


# -- C12: text formats (concrete battery: replays, witnesses and the observation phase of the per-table units) ------

_LB = None


def _label_ok(label, fmt):
    global _LB
    if _LB is None:
        _LB = {chr(c) for c in range(0x110000) if len(('a' + chr(c) + 'b').splitlines()) == 2}
    if not label:
        return False
    if fmt in ('csv', 'csv-int', 'python-literal', 'fimi'):
        return True
    if label != label.strip() or any(ch in _LB for ch in label):
        return False
    if fmt in ('table', 'wiki') and any(ch in '|#' for ch in label):
        return False
    if fmt == 'wiki' and '!' in label:
        return False
    return True


def _triple(c):
    return (list(c.objects), list(c.properties), [tuple(bool(x) for x in r) for r in c.bools])


def b12(concepts, case, symbolic_io=False):
    import csv
    import io
    import os
    import shutil
    import tempfile
    from . import fmtspec
    fails = []
    objs, props = list(case['objects']), list(case['properties'])
    table = [tuple(bool(c) for c in r) for r in case['table']]
    want = (objs, props, table)
    ctx = concepts.Context(objs, props, table)
    which = case.get('format', 'all')
    fmts = ['table', 'cxt', 'wiki', 'csv', 'csv-int', 'python-literal', 'fimi'] if which == 'all' else [which]
    fmts = [f for f in fmts if all(_label_ok(l, f) for l in objs + props)]
    indent = case.get('indent', 0)
    tmp = tempfile.mkdtemp(prefix='c12-')

    def cmp(got, what):
        if got != want:
            fails.append(f'{what}: got {got!r}, expected {want!r}')

    def guard(what, fn):
        try:
            return fn()
        except fmtspec.LayoutError as e:
            fails.append(f'{what}: the emitted text does not follow the layout of the format: {e}')
        except (ValueError, KeyError, IndexError, TypeError, AttributeError, StopIteration) as e:
            fails.append(f'{what}: {type(e).__name__}: {e}')
        return None
    try:
        for f in fmts:
            name = {'csv-int': 'csv', 'wiki': 'wiki-table'}.get(f, f)
            dkw = {'indent': indent} if f == 'table' else {'bools_as_int': True} if f == 'csv-int' else {}
            text = guard(f'{f} tostring', lambda: ctx.tostring(frmat=name, **dkw))
            if text is None:
                continue
            # independent reader
            if f == 'table':
                got = guard(f'{f} reader', lambda: fmtspec.read_table(text))
            elif f == 'cxt':
                got = guard(f'{f} reader', lambda: fmtspec.read_cxt(text))
            elif f == 'wiki':
                got = guard(f'{f} reader', lambda: fmtspec.read_wiki(text))
            elif f in ('csv', 'csv-int'):
                def rd():
                    rows = list(csv.reader(io.StringIO(text, newline='')))
                    sym = {'X': True, '': False} if f == 'csv' else {'1': True, '0': False}
                    return (rows[0][1:], [r[0] for r in rows[1:]], [tuple(sym[x] for x in r[1:]) for r in rows[1:]])
                got = guard(f'{f} reader', rd)
                if got is not None:
                    got = (got[1], got[0], got[2])
            elif f == 'fimi':
                got = guard(f'{f} reader', lambda: fmtspec.read_fimi(text))
                if got is not None and got != [[j for j, c in enumerate(r) if c] for r in table]:
                    fails.append(f'fimi rows {got!r} do not list exactly the true cells of {table!r}')
                got = None
            else:
                got = None
            if got is not None:
                got = (list(got[0]), list(got[1]), [tuple(r) for r in got[2]])
                cmp(got, f'{f}: a reader written from the format description, on the emitted text {text!r}')
            if f in ('wiki', 'fimi'):
                continue
            # string round trip through the public API (and through the format class)
            lkws = [{}] + ([{'bools_as_int': f == 'csv-int'}] if f.startswith('csv') else [])
            for lkw in lkws:
                c2 = guard(f'{f} fromstring', lambda: concepts.Context.fromstring(text, frmat=name, **lkw))
                if c2 is not None:
                    cmp(_triple(c2), f'{f}: fromstring(tostring(x)) {lkw}')
            if f == 'table':
                c2 = guard('make_context', lambda: concepts.make_context(text))
                if c2 is not None:
                    cmp(_triple(c2), 'make_context(tostring(x))')
            # independent writers
            variants = []
            if f == 'table':
                variants = [(s, fmtspec.write_table(objs, props, table, s)) for s in ('aligned', 'tight', 'airy')]
            elif f == 'cxt':
                variants = [('final newline', fmtspec.write_cxt(objs, props, table, True)),
                            ('no final newline', fmtspec.write_cxt(objs, props, table, False))]
            elif f.startswith('csv'):
                sym = {True: 'X', False: ''} if f == 'csv' else {True: '1', False: '0'}
                for qname, q in (('minimal quoting', csv.QUOTE_MINIMAL), ('all quoted', csv.QUOTE_ALL)):
                    buf = io.StringIO(newline='')
                    w = csv.writer(buf, quoting=q)
                    w.writerow([''] + props)
                    w.writerows([[o] + [sym[c] for c in r] for o, r in zip(objs, table)])
                    variants.append((qname, buf.getvalue()))
            for vname, t2 in variants:
                c2 = guard(f'{f} independent writer ({vname})', lambda: concepts.Context.fromstring(t2, frmat=name))
                if c2 is not None:
                    cmp(_triple(c2), f'{f}: text of an independent writer ({vname}) {t2!r}')
            # files, encodings, suffix inference
            suffix = {'table': '.txt', 'cxt': '.cxt', 'csv': '.csv', 'csv-int': '.csv', 'python-literal': '.py'}[f]
            for enc in ('utf-8', 'utf-16', 'latin-1'):
                try:
                    ''.join(objs + props).encode(enc)
                except UnicodeEncodeError:
                    continue
                for sfx in (suffix, suffix.upper()):
                    path = os.path.join(tmp, f'c{len(os.listdir(tmp))}{sfx}')
                    if guard(f'{f} tofile {enc}', lambda: (ctx.tofile(path, frmat=name, encoding=enc, **dkw), 1)[1]) is None:
                        continue
                    c2 = guard(f'{f} fromfile {enc}', lambda: concepts.Context.fromfile(path, frmat=name, encoding=enc))
                    if c2 is not None:
                        cmp(_triple(c2), f'{f}: fromfile(tofile(x)) encoding {enc}')
                    c3 = guard(f'{f} load {sfx} {enc}', lambda: concepts.load(path, encoding=enc))
                    if c3 is not None:
                        cmp(_triple(c3), f'{f}: load() with suffix {sfx!r} encoding {enc}')
                    if f == 'cxt':
                        c4 = guard('load_cxt', lambda: concepts.load_cxt(path, encoding=enc))
                        if c4 is not None:
                            cmp(_triple(c4), f'load_cxt encoding {enc}')
                    if f.startswith('csv'):
                        c4 = guard('load_csv', lambda: concepts.load_csv(path, encoding=enc))
                        if c4 is not None:
                            cmp(_triple(c4), f'load_csv encoding {enc}')
                    if f == 'table' and enc == 'utf-8':
                        d = guard('Definition.fromfile', lambda: concepts.Definition.fromfile(path, frmat='table', encoding=enc))
                        if d is not None:
                            cmp((list(d.objects), list(d.properties), [tuple(r) for r in d.bools]), 'Definition.fromfile(tofile(x))')
        # concept .dat files list exactly the members of each concept
        if which == 'all' and len(objs) * len(props) <= 9:
            from concepts import algorithms
            for extents in (False, True):
                path = os.path.join(tmp, f'concepts{int(extents)}.dat')
                cl = algorithms.get_concepts(ctx)
                cl.tofile(path, extents=extents)
                got = [tuple(r) for r in concepts.formats.read_concepts_dat(path)]
                exp = [tuple((c.extent if extents else c.intent).iter_set()) for c in cl]
                with open(path, encoding='ascii') as fh:
                    lines = fh.read().split('\n')
                raw = [tuple(int(t) for t in l.split(' ') if t) for l in lines[:-1]]
                if got != exp or raw != exp:
                    fails.append(f'concept .dat file (extents={extents}): read {got!r} / raw {raw!r}, expected {exp!r}')
    finally:
        shutil.rmtree(tmp, ignore_errors=True)
    return fails
