"""Concrete observation batteries: for one concrete table, compare every observable a property talks about
(through the public API of whatever ``concepts`` is imported) with the brute-force oracle.

Used (a) to replay solver counterexamples against the real code with the real ``bitsets`` in a fresh interpreter,
and (b) at the end of per-table paths of the symbolic exploration (table pinned by the path condition).
Each battery returns a list of failure strings (empty = all observables agree)."""
import itertools

from .oracle import Oracle, bits, mask


def subsets(seq, max_size=None):
    seq = list(seq)
    for k in range(len(seq) + 1):
        if max_size is not None and k > max_size:
            return
        yield from itertools.combinations(seq, k)


def label_queries(labels, limit=6):
    """all subsets for small label lists, else a structured family (empty, singletons, pairs, prefixes, all)"""
    labels = list(labels)
    if len(labels) <= limit:
        return [list(s) for s in subsets(labels)]
    out = [[]] + [[x] for x in labels] + [list(p) for p in itertools.combinations(labels, 2)]
    out += [labels[:k] for k in range(3, len(labels) + 1)] + [labels[k:] for k in range(1, len(labels) - 2)]
    out += [labels[::2], labels[1::2]]
    seen, res = set(), []
    for q in out:
        t = tuple(q)
        if t not in seen:
            seen.add(t)
            res.append(q)
    return res


def rawmask(v):
    """int mask of a raw bitset value (real bitsets: int subclass; model: SymInt concretised)"""
    return int(v)


# -- C01 ---------------------------------------------------------------------------------------------------

def b01(ctx, orc, queries=None):
    fails = []
    if tuple(ctx.objects) != orc.objects or tuple(ctx.properties) != orc.properties:
        fails.append(f'objects/properties {ctx.objects!r} {ctx.properties!r}')
    got = [tuple(bool(x) for x in row) for row in ctx.bools]
    if got != orc.table:
        fails.append(f'bools {got!r} != table')
    oq = label_queries(orc.objects) if queries is None else [q for side, q in queries if side == 'intension']
    pq = label_queries(orc.properties) if queries is None else [q for side, q in queries if side == 'extension']
    for q in oq:
        want = orc.intent(orc.omask(q))
        variants = [list(q), list(reversed(q)), list(q) + list(q[:1]), tuple(q), iter(list(q))]
        for v in variants:
            desc = repr(v)
            raw = ctx.intension(v, raw=True)
            if rawmask(raw) != want:
                fails.append(f'intension({desc}, raw=True) = {rawmask(raw):#b}, expected {want:#b}')
        lab = ctx.intension(list(q))
        if tuple(lab) != orc.plabels(want) or not isinstance(lab, tuple):
            fails.append(f'intension({q!r}) = {lab!r}, expected {orc.plabels(want)!r}')
        if tuple(ctx.intension(list(q), raw=True).members()) != tuple(lab):
            fails.append(f'intension({q!r}): raw and label forms differ')
    for q in pq:
        want = orc.extent(orc.pmask(q))
        variants = [list(q), list(reversed(q)), list(q) + list(q[:1]), tuple(q), iter(list(q))]
        for v in variants:
            desc = repr(v)
            raw = ctx.extension(v, raw=True)
            if rawmask(raw) != want:
                fails.append(f'extension({desc}, raw=True) = {rawmask(raw):#b}, expected {want:#b}')
        lab = ctx.extension(list(q))
        if tuple(lab) != orc.olabels(want) or not isinstance(lab, tuple):
            fails.append(f'extension({q!r}) = {lab!r}, expected {orc.olabels(want)!r}')
        if tuple(ctx.extension(list(q), raw=True).members()) != tuple(lab):
            fails.append(f'extension({q!r}): raw and label forms differ')
    return fails


# -- C08 ---------------------------------------------------------------------------------------------------

PRED_SPEC = {
    'implies': lambda x, y, f: x & y == x, 'subsumes': lambda x, y, f: x | y == x,
    'properly_implies': lambda x, y, f: x & y == x and x != y,
    'properly_subsumes': lambda x, y, f: x | y == x and x != y,
    'incompatible_with': lambda x, y, f: x & y == 0,
    'complement_of': lambda x, y, f: x & y == 0 and x | y == f,
    'subcontrary_with': lambda x, y, f: x & y != 0 and x | y == f,
    'orthogonal_to': lambda x, y, f: x & y != 0 and x & y != x and x & y != y and x | y != f,
}
import operator
OPS = {'<=': (operator.le, 'implies'), '>=': (operator.ge, 'subsumes'), '<': (operator.lt, 'properly_implies'),
       '>': (operator.gt, 'properly_subsumes')}


def b08_pair(cx, cy, x, y, full, intents=None):
    fails = []
    for name, f in PRED_SPEC.items():
        got = getattr(cx, name)(cy)
        if bool(got) != bool(f(x, y, full)):
            fails.append(f'{name}: extents {x:#b},{y:#b} -> {got!r}, expected {bool(f(x, y, full))}')
    for sym, (op, name) in OPS.items():
        got = op(cx, cy)
        if bool(got) != bool(PRED_SPEC[name](x, y, full)):
            fails.append(f'operator {sym}: extents {x:#b},{y:#b} -> {got!r}')
    if intents is not None:
        ix, iy = intents
        if bool(cx <= cy) != (iy & ix == iy):
            fails.append(f'<= vs intents: {ix:#b} {iy:#b}')
    return fails


def b08(ctx, orc):
    fails = []
    lat = ctx.lattice
    cs = list(lat)
    for a in cs:
        for b in cs:
            x, y = orc.omask(a.extent), orc.omask(b.extent)
            fails += b08_pair(a, b, x, y, orc.full_o, (orc.pmask(a.intent), orc.pmask(b.intent)))
            if a is not b and a <= b and b <= a:
                fails.append('distinct concepts mutually <=')
    return fails


def make(concepts, case):
    """(context, oracle) for a replay case with objects/properties/table"""
    ctx = concepts.Context(case['objects'], case['properties'], [tuple(r) for r in case['table']])
    return ctx, Oracle(case['objects'], case['properties'], case['table'])
