"""Generator level: the real lindig.lattice / lindig.neighbors / fcbo generators explored on a fully symbolic table.

The closure kernels are replaced by their declarative contract (kernel mode 'contract'); the same check discharges
"real kernel == contract" for exactly the shapes it uses (units 'kernel NxM', the C01 L1 obligation).  Paths are
behaviours of the generator (closure systems), not tables: one path covers every table that induces that behaviour.
"""
import time

import z3

from symx import core, harness, minterp
from symx.core import _bv
from . import common
from . import c01


def _gguard(case):
    return lambda fn: common.guarded(fn, case)


def kernel_units(shapes):
    return [{'name': f'kernel {n}x{m}', 'fn': 'unit_kernel', 'args': {'n': n, 'm': m}} for n, m in sorted(set(shapes))]


unit_kernel = c01.unit_kernel


def _case(pid, mdl, cells, n, m, what):
    objs, props = harness.names(n, m)
    return {'kind': f'table:{pid}', 'objects': list(objs), 'properties': list(props),
            'table': harness.table_from_model(mdl, cells), 'what': what}


def _first_failing(cx, named):
    """named: list of (z3 Bool that must hold, description).  One query for the conjunction; drill down if sat."""
    if not named:
        return None
    allok = z3.And(*[c for c, _ in named])
    if not cx.check_fresh(z3.Not(allok)):
        return None
    for c, what in named:
        mdl = cx.check_fresh(z3.Not(c), want_model=True)
        if mdl is not None:
            return mdl, what
    raise core.Inconclusive('conjunction sat but no conjunct fails')


def strict_sub(a, b):
    return z3.And(a & b == a, a != b)


def lindig_unit(pid, args, prefix=(), max_depth=None):
    """pid in C03 (set of concepts), C05 (upper/lower lists), C06 (yield order)"""
    n, m = args['n'], args['m']
    harness.set_width_for(n, m)
    harness.set_kernel_mode('contract')
    concepts = harness.load_concepts()
    from concepts.algorithms import lindig
    cells = harness.cell_vars(n, m)
    objs, props = harness.names(n, m)

    @_gguard(lambda mdl, what: _case(pid, mdl, cells, n, m, what))
    def body():
        cx = core.ctx()
        ctx = concepts.Context(objs, props, harness.sym_rows(cells))
        out = {'cex': [], 'queries': 0}
        try:
            gen = list(ctx._lattice())
        except core.Inconclusive:
            raise
        except Exception as e:     # an exception of the real generator on this path is a counterexample candidate
            mdl = cx.check_fresh(want_model=True)
            out['cex'].append(_case(pid, mdl, cells, n, m, f'generator raised {type(e).__name__}: {e}'))
            return out
        sp = harness.Spec(cells)
        exts = [_bv(c[0]) for c in gen]
        ints = [_bv(c[1]) for c in gen]
        K = len(gen)
        named = []
        if pid == 'C03':
            for k in range(K):
                named.append((sp.closure_o(exts[k]) == exts[k], f'yielded extent #{k} is not closed'))
                named.append((ints[k] == sp.intent(exts[k]), f'yielded intent #{k} is not the derivation of its extent'))
                named.append((sp.is_objset(exts[k]), f'yielded extent #{k} out of domain'))
            if K > 1:
                named.append((z3.Distinct(*exts), 'a concept is yielded twice'))
            named.append((exts[0] == sp.closure_o(0), 'first yielded concept is not the closure of the empty set'))
            named.append((z3.Or(*[e == sp.full_o for e in exts]), 'top concept (all objects) missing'))
            out['queries'] += len(named)
            bad = _first_failing(cx, named)
            if bad:
                out['cex'].append(_case(pid, bad[0], cells, n, m, bad[1]))
            # completeness with a fresh symbolic witness: no closed set is missing
            S = z3.BitVec('S_witness', core.W)
            out['queries'] += 1
            mdl = cx.check_fresh(sp.is_objset(S), sp.closed_o(S), *[e != S for e in exts], want_model=True)
            if mdl is not None:
                out['cex'].append(_case(pid, mdl, cells, n, m, 'a formal concept is missing from the generator output'))
        elif pid == 'C05':
            for k, (e, i, upper, lower) in enumerate(gen):
                ups = [_bv(u) for u in upper]
                los = [_bv(l) for l in lower]
                for a, u in enumerate(ups):
                    between = [z3.And(strict_sub(exts[k], z), strict_sub(z, u)) for z in exts]
                    named.append((z3.And(strict_sub(exts[k], u), z3.Or(*[u == z for z in exts]),
                                         z3.Not(z3.Or(*between))), f'upper list of concept #{k}: entry {a} is not an upper cover'))
                if len(ups) > 1:
                    named.append((z3.Distinct(*ups), f'upper list of concept #{k} has repeats'))
                if len(los) > 1:
                    named.append((z3.Distinct(*los), f'lower list of concept #{k} has repeats'))
                for j in range(K):
                    if j == k:
                        continue
                    cover = z3.And(strict_sub(exts[k], exts[j]),
                                   z3.Not(z3.Or(*[z3.And(strict_sub(exts[k], z), strict_sub(z, exts[j])) for z in exts])))
                    in_up = z3.Or(*[u == exts[j] for u in ups]) if ups else z3.BoolVal(False)
                    named.append((cover == in_up, f'concept #{j} covers #{k} iff it is in its upper list'))
                    # converse: #k in lower list of #j iff #j in upper list of #k
                    los_j = [_bv(l) for l in gen[j][3]]
                    in_lo = z3.Or(*[l == exts[k] for l in los_j]) if los_j else z3.BoolVal(False)
                    named.append((in_up == in_lo, f'upper/lower lists of #{k}/#{j} are not converse'))
            out['queries'] += len(named)
            bad = _first_failing(cx, named)
            if bad:
                out['cex'].append(_case(pid, bad[0], cells, n, m, bad[1]))
        elif pid == 'C06':
            for k in range(K - 1):
                named.append((harness.shortlex_lt(exts[k], exts[k + 1], n),
                              f'yield order: concept #{k + 1} is not shortlex-greater than #{k}'))
            named.append((exts[0] == sp.closure_o(0), 'first yielded is not the bottom'))
            named.append((exts[-1] == sp.full_o, 'last yielded is not the top'))
            out['queries'] += len(named)
            bad = _first_failing(cx, named)
            if bad:
                out['cex'].append(_case(pid, bad[0], cells, n, m, bad[1]))
        for msg, mdl in cx.failed_obligations(want_model=True):
            out['cex'].append(_case(pid, mdl, cells, n, m, f'obligation: {msg}'))
        mdl = cx.check_fresh(want_model=True)
        if mdl is None:
            out['inconclusive'] = ['vacuous path']
        else:
            if not out['cex']:
                out['witness'] = _case(pid, mdl, cells, n, m, None)
            out['sample'] = {'unit': f'lindig {n}x{m}', 'concepts_on_path': K, 'decisions': len(cx.decisions),
                             'a_table_on_this_path': [''.join('X' if c else '.' for c in r)
                                                      for r in harness.table_from_model(mdl, cells)]}
        return out
    res = common.run_paths(body, prefix, max_depth)
    res['encoded'] = harness.encoded(lindig.lattice, lindig.neighbors, concepts.Context._lattice,
                                     concepts.Context.__init__)
    res['bounds'] = f'all {n}x{m} tables (paths = behaviours of the generator)'
    res['stubs'] = ['closure kernels -> declarative contract (proved equal to the real kernels by the kernel units of '
                    'this run)', 'bitsets package -> symbolic model']
    return res


def neighbors_unit(pid, args, prefix=(), max_depth=None):
    """real lindig.neighbors merge-interpreted on a symbolic table and a symbolic CLOSED extent: yields exactly the
    upper covers, each once, with the right intent (one query per shape)."""
    n, m = args['n'], args['m']
    harness.set_width_for(n, m)
    harness.set_kernel_mode('contract')
    concepts = harness.load_concepts()
    from concepts import matrices
    from concepts.algorithms import lindig
    cells = harness.cell_vars(n, m)
    a = z3.BitVec('A', core.W)
    objs, props = harness.names(n, m)

    @_gguard(lambda mdl, what: _case(pid, mdl, cells, n, m, what))
    def body():
        cx = core.ctx()
        intents, extents = matrices.Relation('Properties', 'Objects', props, objs, harness.sym_rows(cells))
        O = extents.BitSet
        sp = harness.Spec(cells)
        cx.assume(sp.is_objset(a), sp.closed_o(a))     # precondition taken from both call sites
        A = O.fromint(core.SymInt(a))
        t0 = time.time()
        got = minterp.call(lindig.neighbors, A, Objects=O)
        ys = [(g if not isinstance(g, bool) else z3.BoolVal(g), _bv(v[0]), _bv(v[1])) for g, v in got.items]
        C = [sp.closure_o(a | (1 << j)) for j in range(n)]
        notin = [z3.Extract(j, j, a) == 0 for j in range(n)]
        is_cover = []
        for j in range(n):
            smaller = [z3.And(notin[k], strict_sub(C[k], C[j])) for k in range(n) if k != j]
            is_cover.append(z3.And(notin[j], z3.Not(z3.Or(*smaller)) if smaller else z3.BoolVal(True)))
        named = []
        for idx, (g, e, i) in enumerate(ys):
            named.append((z3.Implies(g, z3.Or(*[z3.And(is_cover[j], e == C[j]) for j in range(n)])),
                          f'neighbors: yield {idx} is not an upper cover'))
            named.append((z3.Implies(g, i == sp.intent(e)), f'neighbors: yield {idx} has the wrong intent'))
        for j in range(n):
            named.append((z3.Implies(is_cover[j], z3.Or(*[z3.And(g, e == C[j]) for g, e, i in ys]) if ys else z3.BoolVal(False)),
                          f'neighbors: upper cover generated by object {j} is missing'))
        for x in range(len(ys)):
            for y in range(x + 1, len(ys)):
                named.append((z3.Not(z3.And(ys[x][0], ys[y][0], ys[x][1] == ys[y][1])),
                              f'neighbors: yields {x} and {y} repeat a cover'))
        out = {'cex': [], 'queries': len(named)}
        bad = _first_failing(cx, named)
        if bad:
            mdl, what = bad
            c = _case(pid, mdl, cells, n, m, what)
            av = mdl.eval(a, model_completion=True).as_long()
            c['labels'] = [objs[i] for i in range(n) if (av >> i) & 1]
            out['cex'].append(c)
        for msg, mdl in cx.failed_obligations(want_model=True):
            out['cex'].append(_case(pid, mdl, cells, n, m, f'obligation: {msg}'))
        mdl = cx.check_fresh(want_model=True)
        if mdl is None:
            out['inconclusive'] = ['vacuous']
        elif not out['cex']:
            out['witness'] = _case(pid, mdl, cells, n, m, None)
        out['sample'] = {'unit': f'neighbors {n}x{m}', 'guarded_yields': len(ys), 'inputs':
                         'symbolic table, symbolic closed extent', 'seconds': round(time.time() - t0, 2)}
        return out
    res = common.run_paths(body, prefix, max_depth)
    res['encoded'] = harness.encoded(lindig.neighbors)
    res['bounds'] = f'all {n}x{m} tables x all closed extents'
    res['assumptions'] = ['argument of neighbors is a closed extent (precondition established at both call sites)']
    res['stubs'] = ['closure kernels -> declarative contract (proved equal by the kernel units of this run)']
    return res


def fcbo_unit(pid, args, prefix=(), max_depth=None):
    n, m, which = args['n'], args['m'], args['which']
    harness.set_width_for(n, m)
    harness.set_kernel_mode('contract')
    concepts = harness.load_concepts()
    from concepts import algorithms, _common
    cells = harness.cell_vars(n, m)
    objs, props = harness.names(n, m)
    gen = {'fcbo': algorithms.fast_generate_from, 'dual': algorithms.fcbo_dual}[which]

    @_gguard(lambda mdl, what: _case(pid, mdl, cells, n, m, what))
    def body():
        cx = core.ctx()
        ctx = concepts.Context(objs, props, harness.sym_rows(cells))
        out = {'cex': [], 'queries': 0}
        try:
            pairs = list(gen(ctx))
            wrapped = None
            if which == 'fcbo':
                lst = algorithms.get_concepts(ctx)
                it = list(algorithms.iterconcepts(ctx))
                wrapped = (lst, it)
        except core.Inconclusive:
            raise
        except Exception as e:
            mdl = cx.check_fresh(want_model=True)
            out['cex'].append(_case(pid, mdl, cells, n, m, f'{which} raised {type(e).__name__}: {e}'))
            return out
        sp = harness.Spec(cells)
        exts = [_bv(e) for e, i in pairs]
        ints = [_bv(i) for e, i in pairs]
        named = []
        for k in range(len(pairs)):
            named.append((sp.closure_o(exts[k]) == exts[k], f'{which}: yielded extent #{k} is not closed'))
            named.append((ints[k] == sp.intent(exts[k]), f'{which}: yielded intent #{k} != derivation of extent'))
            named.append((z3.And(sp.is_objset(exts[k]), sp.is_propset(ints[k])), f'{which}: #{k} out of domain'))
            if type(pairs[k][0]) is not ctx._Objects or type(pairs[k][1]) is not ctx._Properties:
                named.append((z3.BoolVal(False), f'{which}: #{k} is not a pair of (Objects, Properties) bitsets'))
        if len(exts) > 1:
            named.append((z3.Distinct(*exts), f'{which}: a concept is yielded twice'))
        if wrapped is not None:
            for label, w in (('get_concepts', wrapped[0]), ('iterconcepts', wrapped[1])):
                okshape = len(w) == len(pairs) and all(isinstance(c, _common.Concept) for c in w) \
                    and (label != 'get_concepts' or isinstance(w, _common.ConceptList))
                named.append((z3.And(*[z3.And(_bv(c.extent) == e, _bv(c.intent) == i) for c, e, i in zip(w, exts, ints)])
                              if okshape else z3.BoolVal(False), f'{label} differs from the generator output'))
        out['queries'] += len(named) + 1
        bad = _first_failing(cx, named)
        if bad:
            out['cex'].append(_case(pid, bad[0], cells, n, m, bad[1]))
        S = z3.BitVec('S_witness', core.W)
        mdl = cx.check_fresh(sp.is_objset(S), sp.closed_o(S), *[e != S for e in exts], want_model=True)
        if mdl is not None:
            out['cex'].append(_case(pid, mdl, cells, n, m, f'{which}: a formal concept is missing'))
        for msg, mdl in cx.failed_obligations(want_model=True):
            out['cex'].append(_case(pid, mdl, cells, n, m, f'obligation: {msg}'))
        mdl = cx.check_fresh(want_model=True)
        if mdl is None:
            out['inconclusive'] = ['vacuous path']
        else:
            if not out['cex']:
                out['witness'] = _case(pid, mdl, cells, n, m, None)
            out['sample'] = {'unit': f'{which} {n}x{m}', 'concepts_on_path': len(pairs), 'decisions': len(cx.decisions),
                             'a_table_on_this_path': [''.join('X' if c else '.' for c in r)
                                                      for r in harness.table_from_model(mdl, cells)]}
        return out
    res = common.run_paths(body, prefix, max_depth)
    res['encoded'] = harness.encoded(gen, algorithms.get_concepts, algorithms.iterconcepts,
                                     _common.ConceptList.frompairs)
    res['bounds'] = f'{which}: all {n}x{m} tables (paths = behaviours of the generator)'
    res['stubs'] = ['closure kernels -> declarative contract (proved equal by the kernel units of this run)']
    return res
