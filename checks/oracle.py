"""Brute-force Formal Concept Analysis by definition on a concrete table -- the independent oracle used for
replaying counterexamples on the real code and for comparing per-table paths.  Nothing here is shared with the
repository's algorithms: sets are Python int masks, concepts are found by closing intersections, covers by
definition, orders by sorting position tuples."""
from itertools import combinations


def bits(x):
    return tuple(i for i in range(x.bit_length()) if (x >> i) & 1)


def mask(idx):
    r = 0
    for i in idx:
        r |= 1 << i
    return r


class Oracle:

    def __init__(self, objects, properties, table):
        self.objects = tuple(objects)
        self.properties = tuple(properties)
        self.table = [tuple(bool(c) for c in row) for row in table]
        self.n, self.m = len(self.objects), len(self.properties)
        assert len(self.table) == self.n and all(len(r) == self.m for r in self.table)
        self.full_o = (1 << self.n) - 1
        self.full_p = (1 << self.m) - 1
        self.rows = [mask(j for j in range(self.m) if self.table[i][j]) for i in range(self.n)]
        self.cols = [mask(i for i in range(self.n) if self.table[i][j]) for j in range(self.m)]
        self._concepts = None

    # derivations
    def intent(self, A):
        r = self.full_p
        for i in bits(A):
            r &= self.rows[i]
        return r

    def extent(self, B):
        r = self.full_o
        for j in bits(B):
            r &= self.cols[j]
        return r

    def closure_o(self, A):
        return self.extent(self.intent(A))

    def closure_p(self, B):
        return self.intent(self.extent(B))

    # labels <-> masks
    def omask(self, labels):
        return mask(self.objects.index(x) for x in labels)

    def pmask(self, labels):
        return mask(self.properties.index(x) for x in labels)

    def olabels(self, A):
        return tuple(self.objects[i] for i in bits(A))

    def plabels(self, B):
        return tuple(self.properties[j] for j in bits(B))

    # orders
    @staticmethod
    def shortlex(e):
        b = bits(e)
        return (len(b), b)

    @staticmethod
    def longlex(e):
        b = bits(e)
        return (-len(b), b)

    # concepts
    def extents(self):
        """all closed object sets, in shortlex order"""
        if self._concepts is None:
            ext = {self.full_o}
            for c in self.cols:
                ext |= {e & c for e in ext}
            for e in ext:   # definitional re-check
                assert self.closure_o(e) == e
            self._concepts = sorted(ext, key=self.shortlex)
        return self._concepts

    def extents_by_definition(self):
        """closing every subset (only for small n): cross-check of extents()"""
        return sorted({self.closure_o(A) for A in range(1 << self.n)}, key=self.shortlex)

    def concepts(self):
        return [(e, self.intent(e)) for e in self.extents()]

    def upper_covers(self, e):
        ext = self.extents()
        above = [d for d in ext if d != e and d & e == e]
        cov = [d for d in above if not any(x != d and x & d == x for x in above)]
        return sorted(cov, key=self.shortlex)

    def lower_covers(self, e):
        ext = self.extents()
        below = [d for d in ext if d != e and d & e == d]
        cov = [d for d in below if not any(x != d and x & d == d for x in below)]
        return sorted(cov, key=self.longlex)

    def join(self, extents):
        u = 0
        for e in extents:
            u |= e
        return self.closure_o(u)

    def meet(self, extents):
        r = self.full_o
        for e in extents:
            r &= e
        return r

    def bottom(self):
        return self.closure_o(0)

    def object_concept(self, i):
        return self.closure_o(1 << i)

    def attribute_concept(self, j):
        return self.cols[j]

    def object_labels(self, e):
        return tuple(self.objects[i] for i in range(self.n) if self.object_concept(i) == e)

    def property_labels(self, e):
        return tuple(self.properties[j] for j in range(self.m) if self.attribute_concept(j) == e)

    def generators(self, e):
        """all subsets of the intent whose extent is e, in shortlex order of property positions"""
        it = bits(self.intent(e))
        out = []
        for k in range(len(it) + 1):
            for combo in combinations(it, k):
                if self.extent(mask(combo)) == e:
                    out.append(mask(combo))
        return out
