"""C14 -- derived definitions are correct and unaliased; Context <-> Definition are inverse.

(a) copy / union / intersection / take / transposed / inverted and the operators | & ~ - on (pairs of) definitions with
    symbolic cells, real method bodies merge-interpreted, vs. the cell-wise model; ValueError iff a shared cell differs
    (unless ignored); involutions; the result shares no mutable component with its sources and every follow-up edit
    on either side leaves the other's cells and name orders untouched;
(b) Context(*definition).definition() == definition and back, Context equality iff triples equal, shape / fill_ratio /
    table string / crc32 agreement: per table (all tables up to the bound via the solver-driven partition)."""
import itertools

import z3

from symx import core, harness, minterp
from . import common, defs, pertable, gen, _mk
from .defs import T, F
from .c13 import universes, cp

PID = 'C14'


def units(tier, seed):
    UO, UP, FO, FP = universes(tier)
    ostates = defs.ordered_subsets(UO)
    us = []
    npst = len(defs.ordered_subsets(UP))
    for oi in range(len(ostates)):
        for g in ('unary', 'take', 'binary'):
            chunks = [list(range(npst))] if g == 'unary' else [[i] for i in range(npst)] if tier == 'quick' else \
                [list(range(i, min(i + 2, npst))) for i in range(0, npst, 2)]
            for pis in chunks:
                us.append({'name': f'derive {g} objects={ostates[oi]}', 'fn': 'unit_derive',
                           'args': {'tier': tier, 'oi': oi, 'group': g, 'pis': pis, 'n': 3 if g == 'binary' else 1, 'm': 1}})
    if tier == 'quick':
        from .c13 import quick3_states
        ois, pis = quick3_states()
        o3 = defs.ordered_subsets(universes('quick3')[0])
        for oi in ois:
            for g in ('unary', 'take', 'binary'):
                for pi in pis:
                    us.append({'name': f'derive {g} objects={o3[oi]} (3x3 universe)', 'fn': 'unit_derive',
                               'args': {'tier': 'quick3', 'oi': oi, 'group': g, 'pis': [pi], 'n': 4 if g != 'unary' else 1, 'm': 1}})
    us.sort(key=lambda u: -u['args']['n'])
    t = _mk.QUICK_TABLES if tier == 'quick' else _mk.THOROUGH_TABLES
    us += gen.kernel_units(t)
    us += _mk.table_units(t, extra={'lattice': False})
    return us


unit_kernel = _mk.kernel_unit_for(PID)


def unit_table(args, prefix=(), max_depth=None):
    return pertable.unit(PID, 'b14', args, prefix, max_depth)


def components(d):
    return [d._objects, d._objects._seen, d._objects._items, d._properties, d._properties._seen, d._properties._items,
            d._pairs]


followups = defs.defmodel.followups


def unit_derive(args, prefix=(), max_depth=None):
    tier, group = args['tier'], args['group']
    UO, UP, FO, FP = universes(tier)
    core.set_width(10)
    harness.set_kernel_mode('contract')
    eng = defs.Engine()
    D = eng.D
    MI = minterp.call
    ostates, pstates = defs.ordered_subsets(UO), defs.ordered_subsets(UP)
    O = ostates[args['oi']]
    total = {'paths': 0, 'cex': [], 'queries': 0, 'cuts': [], 'samples': [], 'inconclusive': [], 'witnesses': []}
    nruns = 0
    try:
        for P in [pstates[i] for i in args['pis']]:
            insts = []
            if group == 'unary':
                insts = [(n, ()) for n in ('copy', 'transposed', '__neg__', 'inverted', '__invert__')]
            elif group == 'take':
                no, np_ = defs.rep_names(O, UO, FO[:1]), defs.rep_names(P, UP, FP[:1])
                olists = [None] + [l for l in defs.short_lists(no) if len(l) < 2 or tier == 'quick' or l[0] != l[1]][:12]
                plists = [None] + [l for l in defs.short_lists(np_)][:8]
                if tier == 'quick3':     # two kept names in both relative orders, three names rotated, a repeat
                    olists = [None, [O[1], O[0]], [O[0], O[2]], [O[2], O[0]], [O[1], O[2], O[0]], [O[2], O[2], O[1]]] if len(O) == 3 else olists[:6]
                    plists = [None, [P[-1], P[0]], [P[0], P[-1]], list(reversed(P))] if len(P) >= 2 else plists[:4]
                insts = [('take', (ol, pl, ro)) for ol in olists for pl in plists for ro in (False, True)]
            else:
                others_o = [list(x) for x in defs.ordered_subsets(UO + FO[:1]) if len(x) <= 2][::2] + [list(reversed(UO))]
                others_p = [list(x) for x in defs.ordered_subsets(UP + FP[:1]) if len(x) <= 2][1::2] + [list(reversed(UP))]
                if tier == 'quick3':
                    others_o = [list(reversed(UO)), [UO[2], UO[0]], [UO[1], FO[0], UO[0]]]
                    others_p = [list(reversed(UP)), [UP[2], UP[0]], [UP[1]]]
                for O2 in others_o:
                    for P2 in others_p:
                        for name in ('union', 'intersection'):
                            for ignore in (False, True):
                                insts.append((name, (O2, P2, ignore)))
                        insts.append(('__or__', (O2, P2, False)))
                        insts.append(('__and__', (O2, P2, False)))
            for name, a in insts:
                nruns += 1

                def body(name=name, a0=a):
                    cx = core.ctx()
                    a = cp(a0)
                    d, m = eng.mk(cp(O), cp(P), 'd')
                    C = dict(m)
                    out = {'cex': [], 'queries': 0}
                    other, m2 = None, {}
                    extra = []
                    raised = None
                    r = None
                    what = f'{name}{a!r} on {O} x {P}'
                    try:
                        if name == 'copy':
                            exp = (O, P, C, None, False)
                            r = MI(D.copy, d)
                        elif name in ('union', 'intersection', '__or__', '__and__'):
                            O2, P2, ignore = a
                            other, m2 = eng.mk(O2, P2, 'e')
                            model = defs.defmodel.OPS[name][1]
                            exp = model(O, P, C, O2, P2, dict(m2), ignore)
                            r = MI(getattr(D, name), d, other) if name.startswith('__') else MI(getattr(D, name), d, other, ignore)
                        else:
                            method, model, kind = defs.defmodel.OPS[name]
                            exp = model(O, P, C, *a)
                            r = MI(getattr(D, method), d, *a)
                    except (KeyError, ValueError) as e:
                        raised = type(e).__name__
                    fails = []
                    # sources untouched
                    for src, mm, OO, PP, tag in ((d, m, O, P, 'source'), (other, m2, a[0] if other is not None else None,
                                                                         a[1] if other is not None else None, 'argument')):
                        if src is None:
                            continue
                        extra.append((z3.BoolVal(list(src._objects) == list(OO) and list(src._properties) == list(PP)),
                                      f'{what}: name order of the {tag} changed'))
                        g = eng.cells(src)
                        extra.append((z3.And(*[g[k] == mm[k] for k in mm]) if mm else T, f'{what}: cells of the {tag} changed'))
                    if raised is None:
                        if not isinstance(r, D):
                            fails.append((cx.check_fresh(want_model=True), f'{what}: returned {type(r).__name__}'))
                        else:
                            # no shared mutable state
                            shared = [x for x in components(r) for s in ([d] + ([other] if other is not None else []))
                                      for y in components(s) if x is y]
                            extra.append((z3.BoolVal(not shared), f'{what}: result shares a mutable component with a source'))
                            fails += defs.check_post(eng, cx, r, (O, P, C), exp, None, None, what, extra)
                            if not fails and name in ('transposed', '__neg__', 'inverted', '__invert__'):
                                rr = MI(getattr(D, name), r)
                                g = eng.cells(rr)
                                ok = list(rr._objects) == O and list(rr._properties) == P
                                mdl = cx.check_fresh(z3.Not(z3.And(*[g[k] == C[k] for k in C]) if ok and C else z3.BoolVal(ok)),
                                                     want_model=True)
                                if mdl is not None:
                                    fails.append((mdl, f'{what}: not an involution'))
                            if not fails and (group == 'unary' or nruns % 6 == 0):
                                # every single follow-up edit on one side leaves the other side untouched
                                for side in ('source', 'result'):
                                    for fname, fa in followups(O if side == 'source' else list(r._objects),
                                                               P if side == 'source' else list(r._properties), FO, FP):
                                        d1, _ = eng.mk(O, P, 'd')
                                        o1 = eng.mk(a[0], a[1], 'e')[0] if other is not None else None
                                        if name == 'copy':
                                            r1 = MI(D.copy, d1)
                                        elif other is not None:
                                            r1 = MI(getattr(D, name), d1, o1) if name.startswith('__') else MI(getattr(D, name), d1, o1, a[2])
                                        else:
                                            r1 = MI(getattr(D, defs.defmodel.OPS[name][0]), d1, *a)
                                        tgt, oth = (d1, r1) if side == 'source' else (r1, d1)
                                        before = (list(oth._objects), list(oth._properties), eng.cells(oth))
                                        try:
                                            if fname == 'setitem':
                                                MI(D.__setitem__, tgt, fa[0], fa[1])
                                            else:
                                                MI(getattr(D, fname), tgt, *fa)
                                        except (KeyError, ValueError):
                                            pass
                                        after = (list(oth._objects), list(oth._properties), eng.cells(oth))
                                        same = before[:2] == after[:2] and set(before[2]) == set(after[2])
                                        cond = z3.And(*[before[2][k] == after[2][k] for k in before[2]]) if same and before[2] \
                                            else z3.BoolVal(same)
                                        out['queries'] += 1
                                        mdl = cx.check_fresh(z3.Not(cond), want_model=True)
                                        if mdl is not None:
                                            fails.append((mdl, f'{what}: editing the {side} afterwards ({fname}{fa!r}) changed the other side'))
                                            break
                    else:
                        fails += defs.check_post(eng, cx, d, (O, P, C), exp, raised, None, what, extra)
                    out['queries'] += 3 + len(extra)
                    for msg, mdl in cx.failed_obligations(want_model=True):
                        fails.append((mdl, f'{what}: obligation {msg}'))
                    for mdl, msg in fails:
                        case = {'kind': 'defedit', 'objects': list(O), 'properties': list(P),
                                'true_cells': [[o, p] for (o, p), v in m.items()
                                               if mdl is not None and z3.is_true(mdl.eval(v, model_completion=True))],
                                'op': [name] + list(a), 'what': msg, 'aliasing': True}
                        if other is not None:
                            case['op'] = [name]
                            case['ignore'] = a[2]
                            case['other'] = {'objects': a[0], 'properties': a[1], 'true_cells': [
                                [o, p] for (o, p), v in m2.items()
                                if mdl is not None and z3.is_true(mdl.eval(v, model_completion=True))]}
                        out['cex'].append(case)
                    if not fails and nruns % 17 == 0:
                        mdl = cx.check_fresh(want_model=True)
                        if mdl is not None and name != 'copy':
                            w = {'kind': 'defedit', 'objects': list(O), 'properties': list(P), 'aliasing': True,
                                 'true_cells': [[o, p] for (o, p), v in m.items() if z3.is_true(mdl.eval(v, model_completion=True))],
                                 'op': [name] + list(a)}
                            if other is not None:
                                w['op'] = [name]
                                w['ignore'] = a[2]
                                w['other'] = {'objects': a[0], 'properties': a[1], 'true_cells': [
                                    [o, p] for (o, p), v in m2.items() if z3.is_true(mdl.eval(v, model_completion=True))]}
                            out['witness'] = w
                    out['sample'] = {'unit': args.get('_name'), 'state': [O, P], 'operation': [name, repr(a)],
                                     'outcome_on_path': raised or 'ok', 'cells': 'symbolic (one Boolean per cell)'}
                    return out
                rr_ = common.run_paths(common.guarded(body), max_samples=1)
                total['paths'] += rr_['paths']
                total['queries'] += rr_['queries']
                total['cex'] += rr_['cex'][:2]
                total['inconclusive'] += rr_['inconclusive']
                if len(total['witnesses']) < 3:
                    total['witnesses'] += rr_.get('witnesses', [])[:1]
                if len(total['samples']) < 2 and nruns % 5 == 1:
                    total['samples'] += rr_['samples'][:1]
    finally:
        eng.close()
    total['encoded'] = dict(minterp.ENCODED)
    total['bounds'] = (f'object universe {UO}+{FO}, property universe {UP}+{FP}; object order state {O} x property '
                       f'order states {[pstates[i] for i in args["pis"]]}; group {group}: {nruns} (state, derivation) instances; 18 follow-up edits for every unary derivation and every 6th other instance; cells symbolic')
    total['stubs'] = ['Definition._pairs -> SymSet (symbolic membership per cell)']
    return total
