"""C12 -- text formats (claimed for the part the solver can reach, see DESIGN.md section 6).

symbolic-label units: the real ``Table`` / ``Cxt`` / ``WikiTable`` dumpers and loaders (``concepts.formats``) run
natively on labels whose *characters are solver variables* (21-bit code points, symx/symstr.py) and on symbolic cells.
Assumed: exactly the representability condition of the statement.  Asserted per path, as SMT queries over the path
condition: (A) an independent reader written from the format description recovers objects, properties and cells from
the emitted text; (B) loads(dumps(x)) == x; (C) text produced by independent writers (aligned / tight / airy with
comments and blank lines; cxt with and without the final newline) is loaded as x.

per-table units: symbolic cells, labels from a fixed menu of awkward concrete labels (delimiters of the other formats,
quotes, commas, line breaks for csv/python-literal, cell symbols, non-ASCII): every format through the public
``Context`` API (string and file, utf-8/utf-16/latin-1 where representable, ``concepts.load`` suffix inference, FIMI
rows, concept ``.dat`` files) against the independent readers -- a solver-certified partition of all tables of the
shape (enumeration of tables, stated as such).
"""
import z3

from symx import core, symstr as S
from . import common, fmtspec

PID = 'C12'

LENS_QUICK = {
    (1, 1): [(1, 1), (2, 3), (3, 1)],
    (2, 1): [(1, 2, 1), (3, 1, 2)],
    (1, 2): [(2, 1, 3), (1, 1, 1)],
    (2, 2): [(2, 1, 1, 3), (1, 1, 1, 1)],
}
LENS_THOROUGH = {
    (1, 1): [(1, 1), (2, 3), (3, 1), (4, 4), (1, 5)],
    (2, 1): [(1, 2, 1), (3, 1, 2), (2, 2, 4)],
    (1, 2): [(2, 1, 3), (1, 1, 1), (4, 2, 2)],
    (2, 2): [(2, 1, 1, 3), (1, 1, 1, 1), (3, 3, 2, 2), (1, 4, 2, 1), (5, 1, 1, 6)],
    (3, 1): [(1, 2, 3, 1), (2, 2, 2, 4)],
    (1, 3): [(2, 1, 1, 3), (1, 3, 2, 1)],
    (3, 2): [(1, 2, 3, 2, 1), (1, 1, 1, 1, 1), (4, 1, 2, 3, 1)],
    (2, 3): [(2, 1, 1, 2, 3), (1, 1, 1, 1, 1), (1, 3, 2, 1, 4)],
    (3, 3): [(1, 2, 3, 3, 1, 2), (2, 1, 1, 1, 2, 4)],
}


def units(tier, seed):
    us = []
    table = LENS_QUICK if tier == 'quick' else LENS_THOROUGH
    for (n, m), lens_list in table.items():
        for lens in lens_list:
            for fmt in ('table', 'cxt', 'wiki'):
                indents = ((0, 3) if tier == 'quick' else (0, 1, 7)) if fmt == 'table' else (0,)
                for indent in indents:
                    us.append({'name': f'{fmt} {n}x{m} symbolic labels of lengths {lens} indent {indent}',
                               'fn': 'unit_sym',
                               'args': {'fmt': fmt, 'n': n, 'm': m, 'lens': list(lens), 'indent': indent,
                                        'deadline': 240 if tier == 'quick' else 1500},
                               'split': 5 if n * m >= 6 else 0})
    shapes = [(1, 1), (2, 1), (1, 2), (2, 2), (3, 2), (2, 3)] if tier == 'quick' else \
        [(1, 1), (2, 1), (1, 2), (2, 2), (3, 2), (2, 3), (3, 3), (4, 2), (2, 4)]
    for n, m in shapes:
        for menu in range(len(MENUS)):
            us.append({'name': f'per table {n}x{m} label menu {menu}', 'fn': 'unit_pertable',
                       'args': {'n': n, 'm': m, 'menu': menu, 'deadline': 240 if tier == 'quick' else 1500},
                       'split': 4 if n * m >= 8 else 0})
    us.sort(key=lambda u: -(u['args']['n'] * u['args']['m']))
    for part in range(6):
        us.insert(0, {'name': f'self-test of the string model {part + 1}/6', 'fn': 'unit_selftest',
                      'args': {'n': 0, 'm': 0, 'part': part, 'parts': 6}})
    return us


def unit_selftest(args, prefix=(), max_depth=None):
    from . import selftest_str
    mm, n1, n2 = selftest_str.run(args.get('part', 0), args.get('parts', 1))
    return {'paths': n1 + n2, 'cex': [], 'queries': 0, 'cuts': [], 'samples': [], 'witnesses': [],
            'inconclusive': [f'string model self-test failed: {m}' for m in mm[:5]],
            'bounds': f'{n1} strings x {len(selftest_str.ops("", ""))} str operations and {n2} StringIO scenarios, '
                      f'symbolic characters pinned by equality, compared with CPython',
            'assumptions': [f'string model self-test passed on this run: {n1} strings, {n2} StringIO scenarios']
            if not mm else []}


# -- symbolic labels -------------------------------------------------------------------------------------------

def representable(cx, fmt, labels):
    for lab in labels:
        for c in lab.ch:
            cx.assume(S.valid_char(c), z3.Not(S.in_set(c, S.LINEBREAKS)))
            if fmt in ('table', 'wiki'):
                cx.assume(c != ord('|'), c != ord('#'))
            if fmt == 'wiki':
                cx.assume(c != ord('!'))
        cx.assume(z3.Not(S.is_space(lab.ch[0])), z3.Not(S.is_space(lab.ch[-1])))
    for i, a in enumerate(labels):
        for b in labels[i + 1:]:
            e = S.eq_expr(a, b)
            if e is not False:
                cx.assume(z3.Not(e))


def same(got, want):
    """(objects, properties, bools) equal?  -> z3 Bool / bool"""
    go, gp, gb = got
    wo, wp, wb = want
    go, gp, gb = list(go), list(gp), [tuple(r) for r in gb]
    if len(go) != len(wo) or len(gp) != len(wp) or len(gb) != len(wb) or any(len(a) != len(b) for a, b in zip(gb, wb)):
        return False
    if any(bool(x) != y for a, b in zip(gb, wb) for x, y in zip(a, b)):
        return False
    return S.conj([S.eq_expr(a, b) for a, b in zip(go, wo)] + [S.eq_expr(a, b) for a, b in zip(gp, wp)])


def unit_sym(args, prefix=(), max_depth=None):
    fmt, n, m, lens, indent = args['fmt'], args['n'], args['m'], args['lens'], args['indent']
    core.set_width(10)
    concepts = S.load_concepts(common.REPO)
    from concepts import formats
    F = {'table': formats.Table, 'cxt': formats.Cxt, 'wiki': formats.WikiTable}[fmt]
    reader = {'table': fmtspec.read_table, 'cxt': fmtspec.read_cxt, 'wiki': fmtspec.read_wiki}[fmt]
    cellv = [[z3.Bool(f'c{i}_{j}') for j in range(m)] for i in range(n)]

    def labels():
        o = [S.sym_label(f'o{i}', lens[i]) for i in range(n)]
        p = [S.sym_label(f'p{j}', lens[n + j]) for j in range(m)]
        return o, p

    def case(mdl, what):
        o, p = labels()
        return {'kind': 'fmt', 'format': fmt, 'objects': [S.eval_str(mdl, x) for x in o],
                'properties': [S.eval_str(mdl, x) for x in p], 'indent': indent,
                'table': [[bool(z3.is_true(mdl.eval(v, model_completion=True))) for v in row] for row in cellv],
                'what': what}

    def nice_model(cx, *conds):
        o, p = labels()
        plain = [z3.And(z3.UGE(c, 0x21), z3.ULE(c, 0x7e)) for lab in o + p for c in lab.ch]
        mdl = cx.check_fresh(*conds, *plain, want_model=True)
        return mdl if mdl is not None else cx.check_fresh(*conds, want_model=True)

    def body_():
        cx = core.ctx()
        o, p = labels()
        representable(cx, fmt, o + p)
        rows = [tuple(core.branch(v) for v in row) for row in cellv]
        want = (o, p, rows)
        out = {'cex': [], 'queries': 0}

        def demand(eq, what):
            out['queries'] += 1
            if eq is True:
                return
            cond = z3.BoolVal(True) if eq is False else z3.Not(eq)
            if cx.check_fresh(cond):
                out['cex'].append(case(nice_model(cx, cond), what))
        kw = {'indent': indent} if fmt == 'table' else {}
        text = F.dumps(o, p, [tuple(r) for r in rows], **kw)
        try:
            got = reader(text)
        except fmtspec.LayoutError as e:
            demand(False, f'{fmt}: the emitted text does not follow the layout of the format: {e}')
        else:
            demand(same(got, want), f'{fmt}: a reader written from the format description recovers something else '
                                    f'from the emitted text')
        if fmt != 'wiki':
            a = F.loads(text)
            demand(same((a.objects, a.properties, a.bools), want), f'{fmt}: loads(dumps(x)) != x')
            variants = [('aligned', fmtspec.write_table(o, p, rows, 'aligned')),
                        ('tight', fmtspec.write_table(o, p, rows, 'tight')),
                        ('airy', fmtspec.write_table(o, p, rows, 'airy'))] if fmt == 'table' else \
                [('final newline', fmtspec.write_cxt(o, p, rows, True)), ('no final newline', fmtspec.write_cxt(o, p, rows, False))]
            for name, t2 in variants:
                a = F.loads(t2)
                demand(same((a.objects, a.properties, a.bools), want),
                       f'{fmt}: text written by an independent writer ({name}) is loaded as something else')
        mdl = nice_model(cx)
        if mdl is None:
            out['inconclusive'] = ['vacuous path']
        else:
            if not out['cex']:
                out['witness'] = case(mdl, None)
            out['sample'] = {'unit': args.get('_name'), 'cells_on_this_path': rows, 'emitted_text_shape': repr(text),
                             'a_member_of_this_path': case(mdl, None)['objects'] + case(mdl, None)['properties']}
        return out
    body = common.guarded(body_, case=lambda mdl, what: case(mdl, what))
    r = common.run_paths(body, prefix=prefix, max_depth=max_depth, stop_after_cex=3, deadline_s=args.get('deadline', 240))
    r['encoded'] = _encoded(concepts)
    r['bounds'] = (f'{fmt}: {n} objects x {m} properties, label lengths {lens} (every character any Unicode code point '
                   f'allowed by the representability condition), all cell values, indent {indent}')
    r['stubs'] = ['io.StringIO -> SymStringIO (validated against io.StringIO by the self-test)',
                  'str operators on proxies redirected by a load-time AST transform of concepts.formats.* and concepts.tools',
                  f'transform sites: {dict(S.SITES)}']
    r['assumptions'] = ['labels: non-empty, no leading/trailing white space (str.isspace), no line-break character '
                        '(str.splitlines set), pairwise distinct; table/wiki: no "|" and "#"; wiki: no "!"',
                        'a symbolic character that equals no character of any string constant of the format modules '
                        'hashes like a private-use representative (dict lookups by character)']
    return r


def _encoded(concepts):
    from symx import harness
    from concepts import formats
    from concepts.formats import table, cxt, wiki_table, fimi, base
    return harness.encoded(table.load_file, table.dump_file, cxt.iter_cxt_lines, formats.Cxt.loadf, formats.Cxt.dumpf,
                           wiki_table.dump_file, fimi.iter_fimi_rows, fimi.dump_file, base.Format.dumps,
                           base.Format.loads, concepts.tools.max_len)


# -- per table ---------------------------------------------------------------------------------------------------

MENUS = [
    # (objects pool, properties pool): representable in every format
    (['X', 'x y', '1', 'Ünï', 'o.o', 'B'], ['.', '0', 'a b', 'ß', 'XX', '-']),
    # csv / python-literal only: delimiters, quotes, line breaks, leading/trailing blanks, '|', '#'
    # labels that are themselves cell symbols, first in line (symbol sniffing from the first csv row)
    (['1', 'X', '0', 'o'], ['x', '.', '10', 'p']),
    (['l1\r\nl2', 'a,b "q"', " it's ", 'l1\nl2', 'a|b', 'x\ry'], ['p\rq', '#c,', 'x\\y\n', "'", '"', '語']),
]


def unit_pertable(args, prefix=(), max_depth=None):
    n, m, menu = args['n'], args['m'], args['menu']
    core.set_width(10)
    concepts = S.load_concepts(common.REPO)
    from . import batteries as B
    objs, props = MENUS[menu][0][:n], MENUS[menu][1][:m]
    cellv = [[z3.Bool(f'c{i}_{j}') for j in range(m)] for i in range(n)]

    def case(table, what):
        return {'kind': 'fmt', 'format': 'all', 'objects': objs, 'properties': props, 'table': table, 'what': what,
                'indent': 2}

    def body_():
        cx = core.ctx()
        table = [[core.branch(v) for v in row] for row in cellv]
        out = {'cex': [], 'queries': 1}
        # the cells are decided; the concrete observation runs on the real functions (format modules under the
        # transform, real io for files)
        fails = B.b12(concepts, case(table, None), symbolic_io=True)
        if fails:
            out['cex'].append(case(table, fails[0]))
        else:
            out['witness'] = case(table, None)
        out['sample'] = {'unit': args.get('_name'), 'table': table}
        return out
    body = common.guarded(body_, case=lambda mdl, what: case(
        [[bool(z3.is_true(mdl.eval(v, model_completion=True))) for v in row] for row in cellv], what))
    r = common.run_paths(body, prefix=prefix, max_depth=max_depth, stop_after_cex=3, deadline_s=args.get('deadline', 240))
    r['encoded'] = _encoded(concepts)
    r['bounds'] = f'all {n}x{m} tables (symbolic cells), labels {objs} / {props}; formats: ' + \
        ('table, cxt, wiki-table, csv (X/blank and 1/0), python-literal, fimi' if menu != 2 else 'csv, python-literal')
    return r


def evidence_extra(tier, seed, total):
    return {'claimed_part': 'table, cxt and wiki-table layers on symbolic label text; every format per table on fixed '
                            'awkward labels',
            'outside_the_claim': ['csv and python-literal on symbolic label text (C csv module, ast parser)',
                                  'encodings other than the concrete utf-8/utf-16/latin-1 runs of the per-table units',
                                  'labels longer than the stated lengths, contexts larger than the stated shapes',
                                  'csv dialects other than excel']}
