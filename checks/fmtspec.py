"""Independent readers and writers for the text formats, written from the format descriptions (not from the
repository's code), over plain ``str`` *and* symbolic strings: they use only character-level primitives
(``chars``, ``ceq``, ``is_space`` + ``decide``), which are exact on concrete text and solver decisions on symbolic text.

table   header line: blank object column, then one cell per property; one line per object: label, then one cell per
        property, 'X' = true, blank = false; cells are separated by '|' and every line ends with '|'; white space
        around a cell is padding; '#' starts a comment; blank lines are ignored.
cxt     Burmeister: 'B', an (empty) name line, number of objects, number of properties, an empty line, the object
        labels, the property labels, one line of 'X'/'.' per object.
wiki    MediaWiki table: '{| ...', '!', '!p1!!p2...', then per object '|-', '!label', '|c1||c2...', finally '|}'.
fimi    one line per object: the 0-based indexes of its true cells in increasing order, separated by one blank.
"""
import os
import sys

_DEPS = os.path.join(os.path.dirname(os.path.dirname(os.path.abspath(__file__))), '.deps')
if _DEPS not in sys.path:
    sys.path.append(_DEPS)
from symx import symstr as S   # noqa: E402


class LayoutError(Exception):
    pass


def _is(c, x):
    return S.decide(S.ceq(c, x))


def _sp(c):
    return S.decide(S.is_space(c))


def trim(ch):
    i, j = 0, len(ch)
    while i < j and _sp(ch[i]):
        i += 1
    while j > i and _sp(ch[j - 1]):
        j -= 1
    return ch[i:j]


def lines_of(text):
    out, cur = [], []
    for c in S.chars(text):
        if _is(c, '\n'):
            out.append(cur)
            cur = []
        else:
            cur.append(c)
    out.append(cur)
    return out


def fields(ch, sep):
    """split a character list at every occurrence of the (one- or two-character) separator"""
    sep = list(sep)
    out, cur, i = [], [], 0
    while i < len(ch):
        if i + len(sep) <= len(ch) and all(_is(ch[i + k], s) for k, s in enumerate(sep)):
            out.append(cur)
            cur = []
            i += len(sep)
        else:
            cur.append(ch[i])
            i += 1
    out.append(cur)
    return out


def cell_value(ch, true='X', false=None):
    ch = trim(ch)
    if len(ch) == 1 and _is(ch[0], true):
        return True
    if false is None and not ch:
        return False
    if false is not None and len(ch) == 1 and _is(ch[0], false):
        return False
    raise LayoutError(f'cell is neither {true!r} nor {"blank" if false is None else repr(false)}: {S.mk(ch)!r}')


# -- readers ------------------------------------------------------------------------------------------------

def read_table(text):
    rows = []
    for ln in lines_of(text):
        for k, c in enumerate(ln):
            if _is(c, '#'):
                ln = ln[:k]
                break
        ln = trim(ln)
        if ln:
            rows.append(ln)
    if not rows:
        raise LayoutError('no header line')
    parsed = []
    for ln in rows:
        fs = fields(ln, '|')
        if len(fs) < 2 or trim(fs[-1]):
            raise LayoutError(f'line does not end with "|": {S.mk(ln)!r}')
        parsed.append(fs[:-1])
    head = parsed[0]
    if trim(head[0]):
        raise LayoutError('the object column of the header line is not blank')
    properties = [S.mk(trim(f)) for f in head[1:]]
    objects, bools = [], []
    for fs in parsed[1:]:
        if len(fs) != len(head):
            raise LayoutError(f'a row has {len(fs) - 1} cells, the header has {len(head) - 1}')
        objects.append(S.mk(trim(fs[0])))
        bools.append(tuple(cell_value(f) for f in fs[1:]))
    return objects, properties, bools


def read_cxt(text):
    ls = lines_of(text)
    while ls and not trim(ls[-1]):
        ls.pop()
    if len(ls) < 5 or not (len(ls[0]) == 1 and _is(ls[0][0], 'B')):
        raise LayoutError('first line is not "B"')
    if trim(ls[1]) or trim(ls[4]):
        raise LayoutError('line 2 / line 5 is not empty')

    def number(ch):
        ch = trim(ch)
        ds = []
        for c in ch:
            for d in '0123456789':
                if _is(c, d):
                    ds.append(d)
                    break
            else:
                raise LayoutError('count line is not a number')
        if not ds:
            raise LayoutError('count line is empty')
        return int(''.join(ds))
    y, x = number(ls[2]), number(ls[3])
    body = ls[5:]
    if len(body) != 2 * y + x:
        raise LayoutError(f'{len(body)} lines after the header, expected {y} objects + {x} properties + {y} rows')
    objects = [S.mk(l) for l in body[:y]]
    properties = [S.mk(l) for l in body[y:y + x]]
    bools = []
    for l in body[y + x:]:
        if len(l) != x:
            raise LayoutError(f'a row has {len(l)} symbols, expected {x}')
        bools.append(tuple(cell_value([c], 'X', '.') for c in l))
    return objects, properties, bools


def read_wiki(text):
    ls = [l for l in lines_of(text)]
    while ls and not trim(ls[-1]):
        ls.pop()
    if len(ls) < 4:
        raise LayoutError('too short')
    if not (len(ls[0]) >= 2 and _is(ls[0][0], '{') and _is(ls[0][1], '|')):
        raise LayoutError('does not start with "{|"')
    if not (len(ls[-1]) == 2 and _is(ls[-1][0], '|') and _is(ls[-1][1], '}')):
        raise LayoutError('does not end with "|}"')
    if not (len(ls[1]) == 1 and _is(ls[1][0], '!')):
        raise LayoutError('second line is not the blank corner cell "!"')
    if not (ls[2] and _is(ls[2][0], '!')):
        raise LayoutError('third line is not the header row')
    properties = [S.mk(trim(f)) for f in fields(ls[2][1:], '!!')]
    body = ls[3:-1]
    if len(body) % 3:
        raise LayoutError('rows are not groups of "|-", "!label", "|cells"')
    objects, bools = [], []
    for k in range(0, len(body), 3):
        a, b, c = body[k:k + 3]
        if not (len(a) == 2 and _is(a[0], '|') and _is(a[1], '-')):
            raise LayoutError('missing row separator "|-"')
        if not (b and _is(b[0], '!')) or not (c and _is(c[0], '|')):
            raise LayoutError('malformed row')
        objects.append(S.mk(trim(b[1:])))
        cells = fields(c[1:], '||')
        if len(cells) != len(properties):
            raise LayoutError('wrong number of cells in a row')
        bools.append(tuple(cell_value(f) for f in cells))
    return objects, properties, bools


def read_fimi(text):
    ls = lines_of(text)
    if ls and not ls[-1]:
        ls.pop()
    out = []
    for l in ls:
        s = S.mk(l)
        if not isinstance(s, str):
            raise LayoutError('symbolic character in an index line')
        out.append([int(t) for t in s.split(' ')] if s else [])
    return out


# -- writers (variants a writer that follows the description may produce) ----------------------------------------

def pad(s, w, left=0):
    ch = S.chars(s)
    return [' '] * left + ch + [' '] * max(0, w - len(ch))


def write_table(objects, properties, bools, style='aligned'):
    """styles: aligned (columns padded to a common width), tight (labels unpadded, cells exactly one character: 'X' or one blank), airy (two blanks around every
    cell, indented, a comment and a blank line in between)"""
    ow = max([len(o) for o in objects] + [0])
    out = []

    def line(cells, comment=None):
        ch = []
        for k, c in enumerate(cells):
            if style == 'airy':
                ch += [' ', ' '] + S.chars(c) + [' ', ' ']
            elif style == 'aligned':
                ch += pad(c, ow if k == 0 else max(len(properties[k - 1]), 1))
            else:
                ch += S.chars(c)
            ch.append('|')
        if style == 'airy':
            ch = [' ', ' ', ' '] + ch
        if comment:
            ch += [' '] + list(comment)
        out.append(ch)
    line([''] + list(properties), '# header' if style == 'airy' else None)
    for k, (o, row) in enumerate(zip(objects, bools)):
        if style == 'airy' and k == 1:
            out.append([])
            out.append(list('  # a comment line'))
        line([o] + ['X' if b else (' ' if style == 'tight' else '') for b in row])
    text = []
    for k, l in enumerate(out):
        if k:
            text.append('\n')
        text += l
    if style == 'airy':
        text.append('\n')
    return S.mk(text)


def write_cxt(objects, properties, bools, final_newline=True):
    ls = [list('B'), [], list(str(len(objects))), list(str(len(properties))), []]
    ls += [S.chars(o) for o in objects] + [S.chars(p) for p in properties]
    ls += [['X' if b else '.' for b in row] for row in bools]
    text = []
    for k, l in enumerate(ls):
        if k:
            text.append('\n')
        text += l
    if final_newline:
        text.append('\n')
    return S.mk(text)
