"""C19 -- ill-formed input raises ValueError; accepted input is represented faithfully.

The real Context(objects, properties, rows) and Context.fromdict run on inputs whose *name aliasing pattern* (SymName:
a str subclass with a solver-decided ==), cell values (symbolic bools / symbolic ints used by truthiness) and stored
column indexes (symbolic ints in [-1, m]) are solver variables; list lengths, key sets and type corruptions are
enumerated around them (small finite menus -- enumeration, stated as such).  On a raising path no valid input may
follow that path and the exception must be ValueError; on an accepting path every input must be valid and objects,
properties, bools must reproduce it."""
import itertools

import z3

from symx import core, harness
from symx.core import _bv
from . import common

PID = 'C19'
K = 8   # name universe


class SymName(str):
    """label with a symbolic identity: == is decided by the solver, the hash is constant, so the repository's own
    set()/dict code explores every duplicate/overlap pattern of the name lists"""

    def __new__(cls, tag, e):
        self = str.__new__(cls, tag)
        self.e = e
        return self

    def __eq__(self, other):
        if isinstance(other, SymName):
            return core.mkbool(self.e == other.e)
        return False

    def __ne__(self, other):
        r = self.__eq__(other)
        return (not r) if isinstance(r, bool) else core.mkbool(z3.Not(r.e))

    def __hash__(self):
        return 0


def row_patterns(nrows, m):
    """row-length patterns: all right, one short, one long, short+long, all long, all short"""
    pats = {tuple([m] * nrows)}
    if nrows:
        pats.add(tuple([m] * (nrows - 1) + [max(m - 1, 0)]))
        pats.add(tuple([m + 1] + [m] * (nrows - 1)))
        pats.add(tuple([m + 1] * nrows))
        pats.add(tuple([max(m - 1, 0)] * nrows))
    if nrows >= 2:
        pats.add(tuple([max(m - 1, 0), m + 1] + [m] * (nrows - 2)))
    return sorted(pats)


def units(tier, seed):
    us = []
    top = 2 if tier == 'quick' else 3
    for no in range(0, top + 1):
        for np_ in range(0, top + 1):
            for nrows in sorted({0, no, no + 1, max(no - 1, 0)}):
                us.append({'name': f'constructor {no}+{np_} names, {nrows} rows', 'fn': 'unit_ctor',
                           'args': {'no': no, 'np': np_, 'nrows': nrows, 'n': no, 'm': np_},
                           'split': 5 if no + np_ >= 5 else 0})
    shapes = [(1, 1), (2, 1), (1, 2), (2, 2)] if tier == 'quick' else [(1, 1), (2, 1), (1, 2), (2, 2), (3, 2), (2, 3)]
    for no, np_ in shapes:
        us.append({'name': f'fromdict {no}+{np_}', 'fn': 'unit_fromdict', 'args': {'no': no, 'np': np_, 'n': no, 'm': np_,
                                                                                  'tier': tier}})
    us.sort(key=lambda u: -(u['args']['n'] + u['args']['m']))
    return us


def _names(no, np_):
    oe = [z3.BitVec(f'on{i}', 3) for i in range(no)]
    pe = [z3.BitVec(f'pn{j}', 3) for j in range(np_)]
    return oe, pe


def _name_strings(mdl, es):
    # name id 0 is rendered as the empty string (a legal label that is falsy)
    return [(lambda v: '' if v == 0 else f'n{v}')(mdl.eval(e, model_completion=True).as_long()) for e in es]


def unit_ctor(args, prefix=(), max_depth=None):
    no, np_, nrows = args['no'], args['np'], args['nrows']
    core.set_width(10)
    harness.set_kernel_mode('contract')
    concepts = harness.load_concepts()
    oe, pe = _names(no, np_)
    total = {'paths': 0, 'cex': [], 'queries': 0, 'cuts': [], 'samples': [], 'inconclusive': [], 'witnesses': []}
    for pat in row_patterns(nrows, np_):
        # cell (i, j): symbolic bool if i+j even, else a symbolic int used through its truthiness
        cellv = [[(z3.Bool(f'c{i}_{j}') if (i + j) % 2 == 0 else z3.BitVec(f'v{i}_{j}', core.W)) for j in range(L)]
                 for i, L in enumerate(pat)]

        def truth(v):
            return v if z3.is_bool(v) else v != 0

        def concrete_rows(mdl):
            return [[(bool(z3.is_true(mdl.eval(v, model_completion=True))) if z3.is_bool(v)
                      else mdl.eval(v, model_completion=True).as_signed_long()) for v in row] for row in cellv]

        def case(mdl, what):
            return {'kind': 'ctor', 'objects': _name_strings(mdl, oe), 'properties': _name_strings(mdl, pe),
                    'rows': concrete_rows(mdl), 'what': what}

        @common.guarded
        def body():
            cx = core.ctx()
            # the text of a label is irrelevant to validity -- also when it is the (falsy) empty string
            objs = [SymName('' if i == 0 else f'o{i}', e) for i, e in enumerate(oe)]
            props = [SymName('' if j == 0 else f'p{j}', e) for j, e in enumerate(pe)]
            rows = [tuple(core.SymBool(v) if z3.is_bool(v) else core.SymInt(v) for v in row) for row in cellv]
            allnames = oe + pe
            shape_ok = no > 0 and np_ > 0 and nrows == no and all(L == np_ for L in pat)
            valid = z3.And(z3.BoolVal(shape_ok), z3.Distinct(*allnames) if len(allnames) > 1 else z3.BoolVal(True))
            out = {'cex': [], 'queries': 1}
            try:
                c = concepts.Context(objs, props, rows)
            except ValueError:
                mdl = cx.check_fresh(valid, want_model=True)
                if mdl is not None:
                    out['cex'].append(case(mdl, 'a valid input is rejected'))
                verdict = 'ValueError'
            except core.Inconclusive:
                raise
            except Exception as e:
                mdl = cx.check_fresh(want_model=True)
                out['cex'].append(case(mdl, f'raised {type(e).__name__} instead of ValueError: {e}'))
                verdict = type(e).__name__
            else:
                verdict = 'accepted'
                mdl = cx.check_fresh(z3.Not(valid), want_model=True)
                if mdl is not None:
                    out['cex'].append(case(mdl, 'an invalid input is accepted'))
                elif shape_ok:
                    b = c.bools
                    same = len(c.objects) == no and len(c.properties) == np_ and \
                        all(x is y for x, y in zip(c.objects, objs)) and all(x is y for x, y in zip(c.properties, props)) \
                        and len(b) == no and all(len(r) == np_ for r in b)
                    faithful = z3.And(*[core.tob(b[i][j]) == truth(cellv[i][j]) for i in range(no) for j in range(np_)]) \
                        if same else z3.BoolVal(False)
                    out['queries'] += 1
                    mdl = cx.check_fresh(z3.Not(faithful), want_model=True)
                    if mdl is not None:
                        out['cex'].append(case(mdl, 'accepted input is not reproduced by objects/properties/bools'))
                    elif same:
                        # what the caller does with a returned list must not change what the context reports later
                        try:
                            b.reverse()
                            b.append(('junk',))
                        except (AttributeError, TypeError):
                            pass
                        b2 = c.bools
                        ok2 = len(b2) == no and all(len(r) == np_ for r in b2)
                        again = z3.And(*[core.tob(b2[i][j]) == truth(cellv[i][j]) for i in range(no) for j in range(np_)]) \
                            if ok2 else z3.BoolVal(False)
                        out['queries'] += 1
                        mdl = cx.check_fresh(z3.Not(again), want_model=True)
                        if mdl is not None:
                            out['cex'].append(case(mdl, 'bools differs after the caller modified an earlier bools result'))
            mdl = cx.check_fresh(want_model=True)
            if mdl is None:
                out['inconclusive'] = ['vacuous path']
            else:
                if not out['cex'] and verdict == 'accepted':
                    out['witness'] = case(mdl, None)
                out['sample'] = {'unit': args.get('_name'), 'row_lengths': list(pat), 'verdict_on_path': verdict,
                                 'an_input_on_this_path': {'objects': _name_strings(mdl, oe),
                                                           'properties': _name_strings(mdl, pe)}}
            return out
        r = common.run_paths(body)
        for k in ('paths', 'queries'):
            total[k] += r[k]
        for k in ('cex', 'inconclusive'):
            total[k] += r[k]
        total['witnesses'] += r.get('witnesses', [])[:1]
        total['samples'] += r['samples'][:1]
    total['samples'] = total['samples'][:3]
    total['encoded'] = harness.encoded(concepts.Context.__init__, concepts.matrices.Relation.__new__)
    total['bounds'] = (f'{no}+{np_} names from an {K}-name universe (every duplicate/overlap pattern), {nrows} rows, '
                       f'row-length patterns {row_patterns(nrows, np_)}, all cell values')
    total['stubs'] = ['labels -> SymName (symbolic identity)']
    return total


def unit_fromdict(args, prefix=(), max_depth=None):
    no, np_ = args['no'], args['np']
    core.set_width(max(10, (np_ + 2) ** 2 + 4))
    harness.set_kernel_mode('contract')
    concepts = harness.load_concepts()
    oe, pe = _names(no, np_)
    total = {'paths': 0, 'cex': [], 'queries': 0, 'cuts': [], 'samples': [], 'inconclusive': [], 'witnesses': []}
    # menus (enumerated): row-length patterns of the index lists, dropped keys, lattice variants, type corruptions
    if no == 1:
        lens = [(0,), (1,), (2,), (np_ + 1,)]
    else:
        lens = [tuple([1] * no), tuple([0] + [2] * (no - 1)), tuple([np_] * no)]
    rowcounts = [no] if args['tier'] == 'quick' else [no, no + 1, max(no - 1, 0)]
    variants = []
    for L in sorted(set(lens)):
        variants.append({'lens': L, 'drop': None, 'lattice': 'absent', 'flags': {}, 'corrupt': None})
    base = tuple([1] * no)
    for drop in ('objects', 'properties', 'context'):
        variants.append({'lens': base, 'drop': drop, 'lattice': 'absent', 'flags': {}, 'corrupt': None})
    for lat, flags in (('none', {}), ('empty', {}), ('empty', {'ignore_lattice': True}), ('absent', {'require_lattice': True}),
                       ('absent', {'ignore_lattice': True}), ('none', {'raw': True})):
        variants.append({'lens': base, 'drop': None, 'lattice': lat, 'flags': flags, 'corrupt': None})
    for corrupt in ('object-nonstring', 'property-nonstring', 'index-string', 'index-none', 'extra-row', 'missing-row'):
        variants.append({'lens': base, 'drop': None, 'lattice': 'absent', 'flags': {}, 'corrupt': corrupt})
    for var in variants:
        L = var['lens']
        idx = [[z3.BitVec(f'i{r}_{k}', core.W) for k in range(L[r])] for r in range(no)]

        def build(objs, props, rows):
            d = {'objects': list(objs), 'properties': list(props), 'context': [list(r) for r in rows]}
            c = var['corrupt']
            if c == 'object-nonstring':
                d['objects'][-1] = 7
            elif c == 'property-nonstring':
                d['properties'][0] = None
            elif c == 'index-string':
                d['context'][0] = d['context'][0] + ['0']
            elif c == 'index-none':
                d['context'][-1] = [None]
            elif c == 'extra-row':
                d['context'].append([])
            elif c == 'missing-row':
                d['context'].pop()
            if var['lattice'] == 'none':
                d['lattice'] = None
            elif var['lattice'] == 'empty':
                d['lattice'] = []
            if var['drop']:
                del d[var['drop']]
            return d

        def case(mdl, what):
            rows = [[mdl.eval(v, model_completion=True).as_signed_long() for v in r] for r in idx]
            d = build(_name_strings(mdl, oe), _name_strings(mdl, pe), rows)
            return {'kind': 'fromdict', 'dict': d, 'flags': var['flags'], 'what': what}

        @common.guarded
        def body():
            cx = core.ctx()
            objs = [SymName(f'o{i}', e) for i, e in enumerate(oe)]
            props = [SymName(f'p{j}', e) for j, e in enumerate(pe)]
            for r in idx:
                for v in r:
                    cx.assume(v >= -1, v <= np_)
            rows = [[core.SymInt(v) for v in r] for r in idx]
            # an earlier, valid, WIDER dict whose rows are all index sets of size <= 2 over a larger property list:
            # whatever it leaves behind (caches keyed by rows ...) must not make a later ill-formed dict acceptable
            wide = list(range(np_ + 2))
            wrows = [[]] + [[i] for i in wide] + [[i, j] for i in wide for j in wide if i != j]
            concepts.Context.fromdict({'objects': [f'w{k}' for k in range(len(wrows))],
                                       'properties': [f'v{j}' for j in wide], 'context': wrows})
            d = build(objs, props, rows)
            allnames = oe + pe
            structural = var['drop'] is None and var['corrupt'] is None and var['lattice'] != 'empty' \
                and not (var['flags'].get('require_lattice') and var['lattice'] == 'absent')
            rows_ok = [z3.And(*[z3.And(v >= 0, v < np_) for v in r], z3.Distinct(*r) if len(r) > 1 else z3.BoolVal(True))
                       for r in idx]
            valid = z3.And(z3.BoolVal(structural), z3.Distinct(*allnames) if len(allnames) > 1 else z3.BoolVal(True),
                           *rows_ok)
            out = {'cex': [], 'queries': 1}
            try:
                c = concepts.Context.fromdict(d, **var['flags'])
            except ValueError:
                verdict = 'ValueError'
                mdl = cx.check_fresh(valid, want_model=True)
                if mdl is not None:
                    out['cex'].append(case(mdl, 'a valid serialized dict is rejected'))
            except core.Inconclusive:
                raise
            except Exception as e:
                verdict = type(e).__name__
                out['cex'].append(case(cx.check_fresh(want_model=True),
                                       f'raised {type(e).__name__} instead of ValueError: {e}'))
            else:
                verdict = 'accepted'
                mdl = cx.check_fresh(z3.Not(valid), want_model=True)
                if mdl is not None:
                    out['cex'].append(case(mdl, 'an invalid serialized dict is accepted'))
                elif structural:
                    b = c.bools
                    same = all(x is y for x, y in zip(c.objects, objs)) and all(x is y for x, y in zip(c.properties, props)) \
                        and len(c.objects) == no and len(c.properties) == np_ and len(b) == no \
                        and all(len(r) == np_ for r in b)
                    faithful = z3.And(*[core.tob(b[i][j]) == z3.Or(*[v == j for v in idx[i]])
                                        for i in range(no) for j in range(np_)]) if same else z3.BoolVal(False)
                    out['queries'] += 1
                    mdl = cx.check_fresh(z3.Not(faithful), want_model=True)
                    if mdl is not None:
                        out['cex'].append(case(mdl, 'accepted dict is not reproduced by objects/properties/bools'))
                    if 'lattice' in c.__dict__:
                        out['cex'].append(case(cx.check_fresh(want_model=True), 'a lattice appeared from nowhere'))
            mdl = cx.check_fresh(want_model=True)
            if mdl is None:
                out['inconclusive'] = ['vacuous path']
            else:
                if not out['cex']:
                    out['witness'] = case(mdl, None)
                out['sample'] = {'unit': args.get('_name'), 'variant': {k: v for k, v in var.items()},
                                 'verdict_on_path': verdict}
            return out
        r = common.run_paths(body)
        for k in ('paths', 'queries'):
            total[k] += r[k]
        for k in ('cex', 'inconclusive'):
            total[k] += r[k]
        total['witnesses'] += r.get('witnesses', [])[:1]
        total['samples'] += r['samples'][:1]
    total['samples'] = total['samples'][:3]
    total['witnesses'] = total['witnesses'][:6]
    total['encoded'] = harness.encoded(concepts.Context.fromdict, concepts.Context.__init__)
    total['bounds'] = (f'fromdict: {no}+{np_} names (every aliasing pattern), column indexes in [-1, {np_}] symbolic, '
                       f'{len(variants)} enumerated variants (index-list lengths, dropped keys, lattice '
                       f'absent/None/empty x flags, single type corruptions)')
    return total
