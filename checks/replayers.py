"""kind -> function(concepts, case) -> list of failures, executed on the real code (see replay.py)"""
from . import batteries as B
from .oracle import Oracle, bits, mask


def table_battery(battery):
    def run(concepts, case):
        if case.get('_witness'):     # validation of a path witness: the plain observation on the real code
            ctx, orc = B.make(concepts, case)
            return battery(ctx, orc)
        late, orc = B.make(concepts, case)       # created before, first used after the other contexts
        keep = B.decoys(concepts, case['objects'], case['properties'], case['table'], battery)   # noqa: F841
        fails = [f'(context created before, used after other contexts over the same labels) {f}'
                 for f in battery(late, orc)]
        ctx, orc = B.make(concepts, case)
        fails += battery(ctx, orc)
        fails += [f'(second pass over the same objects) {f}' for f in battery(ctx, orc)]
        if not fails and battery not in (B.b11, B.b14, B.b15, B.b16):
            loaded = concepts.Context.fromdict(ctx.todict())
            fails += [f'(context reloaded with fromdict(todict()), stored lattice) {f}' for f in battery(loaded, orc)]
            rebuilt = concepts.Context(*ctx.definition())
            fails += [f'(context rebuilt from its definition) {f}' for f in battery(rebuilt, orc)]
        if not fails and case.get('probe'):
            pc = B.probe_case(case)
            if pc is not None:
                pctx, porc = B.make(concepts, pc)
                fails += [f'(probe table for {case.get("side")} of {case.get("labels")}) {f}' for f in battery(pctx, porc)]
        return fails
    return run


def derivation(concepts, case):
    ctx, orc = B.make(concepts, case)
    fails = B.b01(ctx, orc, queries=[(case['side'], case['labels'])]) if case.get('labels') is not None else []
    if orc.n <= 6 and orc.m <= 6:
        fails += B.b01(ctx, orc)
    if not fails and case.get('probe') and case.get('labels'):
        # the same query on a table where every member of the query matters (co-nominal scale): a kernel that
        # skips or drops a member shows there even if the solver's table happens to mask it
        k = len(case['objects']) if case['side'] == 'intension' else len(case['properties'])
        objs = [f'o{i}' for i in range(k)]
        props = [f'p{j}' for j in range(k)]
        table = [tuple(i != j for j in range(k)) for i in range(k)]
        probe = {'objects': objs, 'properties': props, 'table': table}
        pctx, porc = B.make(concepts, probe)
        fails += [f'(co-nominal {k}x{k} probe table) {f}'
                  for f in B.b01(pctx, porc, queries=[(case['side'], case['labels'])])]
    return fails


def predicates(concepts, case):
    n, x, y = case['n'], case['x'], case['y']
    objs = [f'o{i}' for i in range(n)]
    table = [((x >> i) & 1 == 1, (y >> i) & 1 == 1) for i in range(n)]
    ctx = concepts.Context(objs, ['px', 'py'], table)
    lat = ctx.lattice
    return B.b08_pair(lat(['px']), lat(['py']), x, y, (1 << n) - 1)


def batch(concepts, case):
    fails = []
    for c in case['cases']:
        for f in REPLAYERS[c['kind']](concepts, dict(c, _witness=True)):
            fails.append(f'{c.get("kind")}: {f}')
    return fails


def ctor(concepts, case):
    return B.b19_ctor(concepts, case['objects'], case['properties'], case['rows'])


def fromdict(concepts, case):
    return B.b19_fromdict(concepts, case['dict'], case.get('flags', {}))


def determinism(concepts, case):
    """the literal experiment: the corpus item in separate interpreter processes under different hash seeds"""
    import os, subprocess, sys
    outs = {}
    for seed in range(0, case.get('seeds', 40)):
        env = dict(os.environ, PYTHONHASHSEED=str(seed))
        r = subprocess.run([sys.executable, '-m', 'checks.c17_corpus', case['item']], capture_output=True, text=True,
                           env=env, cwd=os.path.dirname(os.path.dirname(os.path.abspath(__file__))))
        outs.setdefault(r.stdout.strip() or r.stderr.strip()[-300:], []).append(seed)
        if len(outs) > 1:
            break
    if len(outs) > 1:
        (a, sa), (b, sb) = list(outs.items())[:2]
        i = next((k for k in range(min(len(a), len(b))) if a[k] != b[k]), 0)
        return [f'item {case["item"]}: PYTHONHASHSEED={sa[0]} and {sb[0]} give different transcripts: '
                f'...{a[max(0, i - 60):i + 60]}... vs ...{b[max(0, i - 60):i + 60]}...']
    return []


def defedit(concepts, case):
    from . import defmodel
    return defmodel.replay_edit(concepts, case)


def fmt(concepts, case):
    return B.b12(concepts, case)


REPLAYERS = {
    'fmt': fmt,
    'defedit': defedit,
    'determinism': determinism,
    'ctor': ctor,
    'fromdict': fromdict,
    'batch': batch,
    'predicates': predicates,
    'table:C08': table_battery(B.b08),
    'table:C02': table_battery(B.b02),
    'table:C03': table_battery(B.b03),
    'table:C04': table_battery(B.b04),
    'table:C05': table_battery(B.b05),
    'table:C06': table_battery(B.b06),
    'table:C07': table_battery(B.b07),
    'table:C09': table_battery(B.b09),
    'table:C10': table_battery(B.b10),
    'table:C18': table_battery(B.b18),
    'table:C20': table_battery(B.b20),
    'table:C15': table_battery(B.b15),
    'table:C11': table_battery(B.b11),
    'table:C14': table_battery(B.b14),
    'table:C16': table_battery(B.b16),
    'derivation': derivation,
    'table:C01': table_battery(B.b01),
}
