"""C16 -- relations() classifies each pair of contingent properties once and correctly.

The real junctors.Relations / RelationMeta.__call__ run on symbolic columns; the module-global ``frozenset`` of
junctors is a model (PatternSet) holding the *set of occurring truth combinations* as symbolic bits that is only
concretised when hashed for the class-table lookup, so paths are classes of occurring combinations, not tables."""
import itertools

import z3

from symx import core, harness
from . import common, gen

PID = 'C16'
real_frozenset = frozenset


def units(tier, seed):
    if tier == 'quick':
        shapes = [(1, 1), (2, 1), (1, 2), (2, 2), (3, 2), (4, 2), (6, 2), (8, 2), (2, 3), (3, 3), (4, 3)]
    else:
        shapes = [(n, 1) for n in (1, 2, 5)] + [(n, 2) for n in (1, 2, 3, 4, 8, 12, 16)] + \
                 [(n, 3) for n in (1, 2, 3, 4, 6, 8)] + [(n, 4) for n in (2, 3, 4)]
    us = [{'name': f'relations {n}x{m}', 'fn': 'unit_rel', 'args': {'n': n, 'm': m},
           'split': 6 if m >= 3 else 0} for n, m in shapes]
    # more objects than a machine word has bits: structured columns, a few symbolic cells around positions 63..65 / the end
    wide = [(70, 3, 4)] if tier == 'quick' else [(70, 3, 6), (66, 4, 6), (130, 3, 6), (200, 2, 5)]
    for n, m, k in wide:
        us.append({'name': f'relations wide {n}x{m}', 'fn': 'unit_rel', 'args': {'n': n, 'm': m, 'k': k, 'seed': seed},
                   'split': 4})
    us.sort(key=lambda u: -(u['args']['n'] * 4 ** u['args']['m']))
    return us


class PatternSet:
    """frozenset of bools / bool pairs with symbolic occurrence bits; concretised (by forking) when hashed"""

    def __init__(self, occ):
        self.occ = occ
        self.conc = None

    def concretize(self):
        if self.conc is None:
            self.conc = real_frozenset(k for k in sorted(self.occ, key=repr) if core.branch(self.occ[k]))
        return self.conc

    def __hash__(self):
        return hash(self.concretize())

    def __eq__(self, other):
        return self.concretize() == other

    def __iter__(self):
        return iter(self.concretize())

    def __len__(self):
        return len(self.concretize())


def model_frozenset(it=()):
    items = list(it)

    def sym(x):
        return isinstance(x, core.SymBool) or (isinstance(x, tuple) and any(isinstance(y, core.SymBool) for y in x))
    def deep(x):
        return tuple(deep(y) for y in x) if isinstance(x, tuple) else (bool(x) if isinstance(x, core.SymBool) else x)

    if not items or not any(sym(x) or isinstance(x, tuple) and any(isinstance(y, tuple) for y in x) for x in items):
        if any(isinstance(x, tuple) and any(isinstance(z, core.SymBool) for y in x if isinstance(y, tuple) for z in y)
               for x in items):
            return real_frozenset(deep(x) for x in items)
        return real_frozenset(items)
    if not all(isinstance(x, (bool, core.SymBool)) or (isinstance(x, tuple) and len(x) == 2 and all(
            isinstance(y, (bool, core.SymBool)) for y in x)) for x in items):
        # not a set of truth values / truth-value pairs (e.g. whole columns used as a memo key): concretise (forks)
        return real_frozenset(deep(x) for x in items)
    occ = {}
    if isinstance(items[0], tuple):
        for a, b in items:
            for va in (True, False):
                for vb in (True, False):
                    c = z3.And(core.tob(a) == va, core.tob(b) == vb)
                    occ[(va, vb)] = z3.Or(occ.get((va, vb), z3.BoolVal(False)), c)
    else:
        for a in items:
            for va in (True, False):
                occ[va] = z3.Or(occ.get(va, z3.BoolVal(False)), core.tob(a) == va)
    return PatternSet({k: z3.simplify(v) for k, v in occ.items()})


RANK = {'equivalent': 1, 'complement': 2, 'incompatible': 3, 'implication': 4, 'subcontrary': 6, 'orthogonal': 7,
        'tautology': -1, 'contradiction': -2, 'contingency': 0}   # the ranks documented in the junctors kind tables


def unit_rel(args, prefix=(), max_depth=None):
    n, m = args['n'], args['m']
    harness.set_width_for(n, m)
    harness.set_kernel_mode('contract')
    concepts = harness.load_concepts()
    from concepts import junctors
    cells = harness.cell_vars(n, m)
    objs, props = harness.names(n, m)
    if args.get('k'):
        import random
        rnd = random.Random(args.get('seed', 0) * 31 + n)
        # columns: first half / every third object / objects >= 64 only / one object at 64 ...
        # object 64 (and 129) is the only witness of a truth combination
        base = [[(i < n // 2, i % 3 == 0, i in (64, 129), i >= 64, i in (1, 65))[j % 5] for j in range(m)] for i in range(n)]
        cand = [(i, j) for i in sorted({0, 1, 62, 63, 64, 65, 66, n - 2, n - 1, 128, 129} & set(range(n))) for j in range(m)]
        pos = set(rnd.sample(cand, min(args['k'], len(cand))))
        cells = [[cells[i][j] if (i, j) in pos else bool(base[i][j]) for j in range(m)] for i in range(n)]

    def zb(x):
        return x if z3.is_expr(x) else z3.BoolVal(bool(x))

    def col(j):
        return [zb(cells[i][j]) for i in range(n)]

    def contingent(a):
        return z3.And(z3.Or(*a), z3.Or(*[z3.Not(x) for x in a]))

    def case(mdl, what):
        return {'kind': f'table:{PID}', 'objects': list(objs), 'properties': list(props),
                'table': harness.table_from_model(mdl, cells), 'what': what}

    def body():
        cx = core.ctx()
        out = {'cex': [], 'queries': 0}
        junctors.frozenset = model_frozenset
        try:
            ctx = concepts.Context(objs, props, harness.sym_rows(cells))
            named = []
            # every call is analysed, then the caller edits the list it was handed (reverse, clear): what a caller does
            # with a returned value must not change what later calls report
            for include_unary in (True, False, True, False):
                try:
                    rel = ctx.relations(include_unary=include_unary)
                except core.Inconclusive:
                    raise
                except Exception as e:
                    out['cex'].append(case(cx.check_fresh(want_model=True), f'relations() raised {type(e).__name__}: {e}'))
                    return out
                seen_pairs, src = [], []
                for r in rel:
                    if r.left not in props:
                        named.append((z3.BoolVal(False), f'unknown property {r.left!r}'))
                        continue
                    j = props.index(r.left)
                    if r.__class__.binary:
                        k = props.index(r.right)
                        a, b = col(j), col(k)
                        occ = {(va, vb): z3.Or(*[z3.And(x == va, y == vb) for x, y in zip(a, b)])
                               for va in (True, False) for vb in (True, False)}
                        T, F = True, False
                        spec = {'equivalent': z3.And(occ[T, T], z3.Not(occ[T, F]), z3.Not(occ[F, T]), occ[F, F]),
                                'complement': z3.And(z3.Not(occ[T, T]), occ[T, F], occ[F, T], z3.Not(occ[F, F])),
                                'incompatible': z3.And(z3.Not(occ[T, T]), occ[T, F], occ[F, T], occ[F, F]),
                                'implication': z3.And(occ[T, T], z3.Not(occ[T, F]), occ[F, T], occ[F, F]),
                                'subcontrary': z3.And(occ[T, T], occ[T, F], occ[F, T], z3.Not(occ[F, F])),
                                'orthogonal': z3.And(occ[T, T], occ[T, F], occ[F, T], occ[F, F])}.get(r.kind)
                        named.append((spec if spec is not None else z3.BoolVal(False),
                                      f'kind {r.kind!r} of ({r.left}, {r.right}) is not determined by the occurring combinations'))
                        named.append((z3.And(contingent(a), contingent(b)), f'entry for non-contingent ({r.left}, {r.right})'))
                        seen_pairs.append(real_frozenset((j, k)))
                        lo, hi = sorted((j, k))
                        src.append((RANK.get(r.kind, 99), 1, lo, hi))
                    else:
                        a = col(j)
                        t, f = z3.Or(*a), z3.Or(*[z3.Not(x) for x in a])
                        spec = {'tautology': z3.And(t, z3.Not(f)), 'contradiction': z3.And(f, z3.Not(t)),
                                'contingency': z3.And(t, f)}.get(r.kind)
                        named.append((spec if spec is not None else z3.BoolVal(False), f'unary kind {r.kind!r} of {r.left}'))
                        src.append((RANK.get(r.kind, 99), 0, j, -1))
                    if getattr(r, 'order', None) != RANK.get(r.kind):
                        named.append((z3.BoolVal(False), f'rank of kind {r.kind!r} is {getattr(r, "order", None)}'))
                named.append((z3.BoolVal(src == sorted(src)), f'entries not sorted by kind rank, stable in property order: {src}'))
                named.append((z3.BoolVal(len(seen_pairs) == len(set(seen_pairs))), 'a pair of properties is listed twice'))
                for j, k in itertools.combinations(range(m), 2):
                    named.append((z3.And(contingent(col(j)), contingent(col(k))) == z3.BoolVal(real_frozenset((j, k)) in seen_pairs),
                                  f'pair ({props[j]}, {props[k]}) listed iff both contingent'))
                if include_unary:
                    un = [props.index(r.left) for r in rel if not r.__class__.binary and r.left in props]
                    named.append((z3.BoolVal(sorted(un) == list(range(m))), 'include_unary: exactly one unary entry per property'))
                else:
                    named.append((z3.BoolVal(all(r.__class__.binary for r in rel)), 'unary entry without include_unary'))
                # printing must be defined on every path, also when there is nothing to list
                for label, f in (('str()', lambda: str(rel)), ('tostring()', lambda: rel.tostring()),
                                 ('tostring(exclude_orthogonal=True)', lambda: rel.tostring(exclude_orthogonal=True))):
                    try:
                        s = f()
                        if not isinstance(s, str):
                            named.append((z3.BoolVal(False), f'{label} returned {type(s).__name__}'))
                    except core.Inconclusive:
                        raise
                    except Exception as e:
                        named.append((z3.BoolVal(False), f'{label} of relations(include_unary={include_unary}) with '
                                                         f'{len(rel)} entries raised {type(e).__name__}: {e}'))
                try:
                    rel.reverse()
                    del rel[:]
                except (AttributeError, TypeError):
                    pass
            out['queries'] += len(named)
            bad = gen._first_failing(cx, named)
            if bad:
                out['cex'].append(case(bad[0], bad[1]))
            mdl = cx.check_fresh(want_model=True)
            if mdl is None:
                out['inconclusive'] = ['vacuous path']
            else:
                if not out['cex']:
                    out['witness'] = case(mdl, None)
                out['sample'] = {'unit': f'relations {n}x{m}', 'kinds_on_path': [r.kind for r in rel],
                                 'a_table_on_this_path': [''.join('X' if c else '.' for c in r)
                                                          for r in harness.table_from_model(mdl, cells)]}
            return out
        except core.Inconclusive as e:
            return {'cex': [], 'queries': 0, 'inconclusive': [f'{type(e).__name__}: {e}']}
        finally:
            del junctors.frozenset
    res = common.run_paths(body, prefix, max_depth)
    res['encoded'] = harness.encoded(junctors.Relations.__init__, junctors.RelationMeta.__call__,
                                     junctors.Relations.tostring, junctors.Relations.__str__, concepts.Context.relations)
    res['bounds'] = f'all {n}x{m} tables (paths = classes of occurring truth combinations)'
    res['stubs'] = ['junctors.frozenset -> PatternSet model (symbolic occurrence bits, concretised on hashing)']
    return res
