"""Corpus of calls whose complete observable transcript must not depend on set iteration order / hash seed.
Each item is a function(concepts) -> JSON-serialisable transcript.  Run as a module it prints the transcript of one
item (used to replay a counterexample in separate interpreter processes under different PYTHONHASHSEED values)."""
import io
import json
import sys


def _defn(concepts):
    return concepts.Definition(['zo', 'ya', 'xe'], ['pc', 'pa', 'pb'],
                               [(True, False, True), (False, True, False), (True, True, False)])


def _snap(d):
    return [list(d.objects), list(d.properties), [list(r) for r in d.bools], str(d)]


def _exc(f):
    try:
        return ['ok', f()]
    except Exception as e:
        return [type(e).__name__, str(e)]


def _edit(method, *args, **kw):
    def item(concepts):
        d = _defn(concepts)
        rv = _exc(lambda: getattr(d, method)(*args, **kw))
        rv = rv if rv[0] != 'ok' else ['ok', rv[1] if isinstance(rv[1], (list, type(None), bool)) else repr(rv[1])]
        return [rv] + _snap(d)
    return item


def _derive(method, other=False, **kw):
    def item(concepts):
        d = _defn(concepts)
        args = []
        if other:
            args = [concepts.Definition(['ya', 'nu', 'mi', 'la'], ['pb', 'qz', 'qa'],
                                        [(False, True, False), (True, False, True), (False, False, True), (True, True, True)])]
        r = _exc(lambda: _snap(getattr(d, method)(*args, **kw)))
        return [r] + _snap(d)
    return item


def _context(concepts):
    return concepts.Context(['zo', 'ya', 'xe', 'wu'], ['pc', 'pa', 'pb'],
                            [(True, False, True), (False, True, False), (True, True, False), (False, False, True)])


def ctx_texts(concepts):
    c = _context(concepts)
    out = [c.tostring(), c.tostring(frmat='cxt'), c.tostring(frmat='csv'), c.tostring(frmat='python-literal'),
           c.crc32(), repr(c.todict(ignore_lattice=True)), str(c.definition()), str(c.relations()),
           [str(r) for r in c.relations(include_unary=True)]]
    buf = io.StringIO()
    c.tojson(buf, ignore_lattice=True)
    out.append(buf.getvalue())
    return out


def lattice_all(concepts):
    c = _context(concepts)
    l = c.lattice
    out = [str(l).split('\n', 1)[1], [(x.index, x.dindex, list(x.extent), list(x.intent), list(x.objects),
                                       list(x.properties), [u.index for u in x.upper_neighbors],
                                       [d.index for d in x.lower_neighbors], [a.index for a in x.atoms],
                                       list(x.minimal()), [list(a) for a in x.attributes()]) for x in l],
           repr(c.todict()), l.graphviz().source.split('\n', 1)[1], c.tostring(frmat='python-literal')]
    buf = io.StringIO()
    c.tojson(buf)
    out.append(buf.getvalue())
    return out


def _lattice_pre(concepts):
    c = _context(concepts)
    c.lattice
    return c


def _trav(k):
    def item(concepts, c):
        l = c.lattice
        cs = list(l)
        seeds = [[cs[1], cs[2], cs[3]], [cs[3], cs[1], cs[1]], [cs[-2], cs[2]], cs[1:5], [cs[2], cs[4], cs[2], cs[0]]][k]
        return [[y.index for y in l.upset_union(seeds)], [y.index for y in l.downset_union(seeds)],
                [y.index for y in l.upset_generalization(seeds)], l.join(seeds).index, l.meet(seeds).index]
    return item


def updown(concepts, c):
    return [[[y.index for y in x.upset()], [y.index for y in x.downset()]] for x in c.lattice] + [c.neighbors(['zo'])]


def ctx_errors(concepts):
    C = concepts.Context
    return [_exc(lambda: C(['a', 'b', 'c', 'd'], ['c', 'b', 'a', 'e'], [(True,) * 4] * 4)),
            _exc(lambda: C(['a', 'b', 'a', 'b'], ['x'], [(True,)] * 4)),
            _exc(lambda: C(['a'], ['x', 'y', 'x'], [(True,) * 3])),
            _exc(lambda: C.fromdict({'objects': ['a'], 'properties': ['x', 'y'], 'context': [[0, 0]]})),
            _exc(lambda: C.fromdict({'properties': ['x', 'y']})),
            _exc(lambda: C.fromdict({'objects': ['a', 1], 'properties': ['x', 'y'], 'context': [[0], [1]]})),
            _exc(lambda: concepts.Definition(['a', 'a', 'b', 'b'], ['x'], [(True,)] * 4)),
            _exc(lambda: C(['x'], ['d', 'c', 'd', 'b', 'c', 'b'], [(True,) * 6])),
            _exc(lambda: C.fromdict({'objects': ['b', 'a', 'b', 'a', 'c', 'c'], 'properties': ['x'], 'context': [[0]] * 6})),
            _exc(lambda: concepts.Definition(['a'], ['q', 'p', 'q', 'p', 'r', 'r'], [(True,) * 6]))]


def fromdict_raw(concepts):
    d = FROMDICT
    c2 = concepts.Context.fromdict(d, raw=True)
    return [repr(c2.todict()), str(c2.lattice).split('\n', 1)[1]]


def fromdict_raw_permuted(concepts):
    d = FROMDICT
    n = len(d['lattice'])
    d2 = dict(d, lattice=[(e, i, tuple(n - 1 - u for u in up), tuple(n - 1 - x for x in lo))
                          for e, i, up, lo in reversed(d['lattice'])])
    c3 = concepts.Context.fromdict(d2, raw=True)
    return [repr(c3.todict()), str(c3.lattice).split('\n', 1)[1]]


# todict() of _context(), written out (index-based encoding)
FROMDICT = {'objects': ('zo', 'ya', 'xe', 'wu'), 'properties': ('pc', 'pa', 'pb'),
            'context': [(0, 2), (1,), (0, 1), (2,)],
            'lattice': [((), (0, 1, 2), (1, 2), ()), ((0,), (0, 2), (3, 4), (0,)), ((2,), (0, 1), (3, 5), (0,)),
                        ((0, 2), (0,), (6,), (1, 2)), ((0, 3), (2,), (6,), (1,)), ((1, 2), (1,), (6,), (2,)),
                        ((0, 1, 2, 3), (), (), (3, 4, 5))]}


ITEMS = {
    'add_object': _edit('add_object', 'nu', ['qz', 'qa', 'pa', 'qm']),
    'add_property': _edit('add_property', 'qz', ['nu', 'mi', 'ya', 'la']),
    'set_object_new': _edit('set_object', 'nu', ['qz', 'qa', 'pa', 'qm']),
    'set_object_existing': _edit('set_object', 'ya', ['qz', 'pc', 'qa']),
    'set_property_new': _edit('set_property', 'qz', ['nu', 'mi', 'ya', 'la']),
    'set_property_existing': _edit('set_property', 'pa', ['nu', 'zo', 'mi']),
    'setitem': _edit('__setitem__', ('nu', 'qz'), True),
    'rename_object': _edit('rename_object', 'ya', 'yb'),
    'rename_property': _edit('rename_property', 'pa', 'pz'),
    'rename_clash': _edit('rename_property', 'pa', 'pb'),
    'remove_object': _edit('remove_object', 'zo'),
    'remove_property': _edit('remove_property', 'pb'),
    'remove_unknown': _edit('remove_object', 'nope'),
    'remove_empty_objects': lambda concepts: (lambda d: [d.remove_empty_objects(), d.remove_empty_properties()] + _snap(d))(
        concepts.Definition(['c', 'b', 'a', 'd'], ['z', 'y', 'x', 'w'],
                            [(0, 0, 0, 0), (0, 1, 0, 0), (0, 0, 0, 0), (0, 0, 0, 0)])),
    'remove_empty_many': lambda concepts: (lambda d: [d.remove_empty_objects(), d.remove_empty_properties()] + _snap(d))(
        concepts.Definition(['f', 'e', 'd', 'c', 'b', 'a'], ['u', 'z', 'y', 'x', 'w', 'v'],
                            [(0, 0, 0, 0, 0, 0), (0, 1, 0, 0, 1, 0), (0, 0, 0, 0, 0, 0), (0, 0, 0, 1, 0, 0),
                             (0, 0, 0, 0, 0, 0), (0, 1, 0, 0, 0, 1)])),
    'move': _edit('move_object', 'xe', 0),
    'union': _derive('union', other=True, ignore_conflicts=True),
    'union_conflict': _derive('union', other=True),
    'intersection': _derive('intersection', other=True, ignore_conflicts=True),
    'union_update': _edit('union_update', None),   # replaced below
    'take': _derive('take', objects=['xe', 'zo'], properties=['pb', 'pc'], reorder=True),
    'take_noreorder': _derive('take', objects=['xe', 'zo'], properties=['pb', 'pc']),
    'take_unknown': _derive('take', objects=['xe', 'q1', 'q2', 'q3'], properties=['r1', 'pb', 'r2']),
    'inverted': _derive('inverted'),
    'transposed': _derive('transposed'),
    'copy': _derive('copy'),
    'ctx_texts': ctx_texts,
    'lattice_all': lattice_all,
    'updown': updown,
    'union_seeds_0': _trav(0), 'union_seeds_1': _trav(1), 'union_seeds_2': _trav(2), 'union_seeds_3': _trav(3),
    'union_seeds_4': _trav(4),
    'ctx_errors': ctx_errors,
    'fromdict_raw': fromdict_raw,
    'fromdict_raw_permuted': fromdict_raw_permuted,
}
# state built once OUTSIDE the exploration (default order); the item then runs on it under every order
PRE = {k: _lattice_pre for k in ('updown', 'union_seeds_0', 'union_seeds_1', 'union_seeds_2', 'union_seeds_3',
                                 'union_seeds_4')}


def _union_update(concepts):
    d = _defn(concepts)
    o = concepts.Definition(['ya', 'nu', 'mi', 'la'], ['pb', 'qz', 'qa'],
                            [(False, True, False), (True, False, True), (False, False, True), (True, True, True)])
    r = _exc(lambda: d.union_update(o, ignore_conflicts=True))
    d2 = _defn(concepts)
    r2 = _exc(lambda: d2.intersection_update(o, ignore_conflicts=True))
    d3 = _defn(concepts)
    d3 |= concepts.Definition(['la', 'ka'], ['qq', 'pa'], [(True, False), (False, False)])
    return [r, r2] + _snap(d) + _snap(d2) + _snap(d3)


ITEMS['union_update'] = _union_update


def _many_conflicts(concepts):
    a = concepts.Definition(['zo', 'ya', 'xe', 'wu'], ['pc', 'pa', 'pb', 'pd'],
                            [(1, 0, 1, 0), (0, 1, 0, 1), (1, 1, 0, 0), (0, 0, 1, 1)])
    b = concepts.Definition(['wu', 'xe', 'ya', 'zo', 'vi'], ['pd', 'pb', 'pa', 'pc', 'pe'],
                            [(0, 0, 1, 1, 1), (1, 1, 0, 0, 0), (0, 1, 0, 1, 1), (1, 0, 1, 0, 0), (1, 1, 1, 1, 1)])
    out = []
    for f in (lambda: a.union(b), lambda: a.intersection(b), lambda: b | a, lambda: a.union_update(b),
              lambda: b.intersection_update(a)):
        out.append(_exc(lambda: _snap(f()) if f() is not None else None))
    return out + _snap(a) + _snap(b)


ITEMS['many_conflicts'] = _many_conflicts


def _sparse_conflicts(concepts):
    """large shared grid, few differing cells, several of them conflicts (on every axis position class)"""
    objs = ['o%s' % c for c in 'hgfedcba']
    props = ['p%s' % c for c in 'stuvwxyz']
    t = [[(i * 3 + j * 5) % 7 < 3 for j in range(8)] for i in range(8)]
    u = [list(r) for r in t]
    for i, j in ((6, 1), (1, 6), (3, 3), (0, 7)):
        u[i][j] = not u[i][j]
    out = []
    for k in (8, 5):
        a = concepts.Definition(objs[:k], props[:k], [r[:k] for r in t[:k]])
        b = concepts.Definition(list(reversed(objs[:k])), props[:k], [r[:k] for r in reversed(u[:k])])
        for f in (lambda: a.union(b), lambda: a.intersection(b), lambda: b | a, lambda: b & a,
                  lambda: a.union_update(b), lambda: b.intersection_update(a)):
            out.append(_exc(lambda: _snap(f()) if f() is not None else None))
        out += _snap(a) + _snap(b)
    return out


ITEMS['sparse_conflicts'] = _sparse_conflicts


def _argument_forms(concepts):
    """the same names handed over in different (deterministic) container types: insertion-ordered dict views, dicts,
    tuples, generators, strings"""
    out = []
    new = ['qz', 'qa', 'pa', 'qm', 'qb']
    for make in (lambda: dict.fromkeys(new).keys(), lambda: dict.fromkeys(new), lambda: tuple(new),
                 lambda: (x for x in new), lambda: dict.fromkeys(new).items().__class__ and list(new)):
        d = _defn(concepts)
        d.add_object('nu', make())
        d.add_property('qq', make())
        out.append(_snap(d))
        d2 = _defn(concepts)
        d2.set_object('ya', make())
        d2.set_property('pb', make())
        out.append(_snap(d2))
    d3 = concepts.Definition('dcba', 'zyxw', [(1, 0, 1, 0), (0, 1, 0, 1), (1, 1, 0, 0), (0, 0, 1, 1)])
    d3.add_object('e', 'yxv')
    out.append(_snap(d3))
    out.append(_snap(d3.take(dict.fromkeys('bd').keys(), dict.fromkeys('wz'), reorder=True)))
    c = _context(concepts)
    out.append([c.intension(dict.fromkeys(['xe', 'zo']).keys()), c.extension(dict.fromkeys(['pc'])), c[('zo', 'xe')],
                c.neighbors(dict.fromkeys(['wu']).keys())])
    return out


ITEMS['argument_forms'] = _argument_forms


def prepare(concepts, name):
    return PRE[name](concepts) if name in PRE else None


def transcript(concepts, name, pre=None):
    if name in PRE:
        if pre is None:
            pre = PRE[name](concepts)
        return json.loads(json.dumps(ITEMS[name](concepts, pre), default=repr))
    return json.loads(json.dumps(ITEMS[name](concepts), default=repr))


if __name__ == '__main__':
    import os
    sys.path.insert(0, os.environ.get('VERIF_REPO', '/repo'))
    import concepts
    if sys.argv[1] == '--all':
        print(json.dumps({name: transcript(concepts, name) for name in ITEMS}, sort_keys=True))
    else:
        print(json.dumps(transcript(concepts, sys.argv[1]), sort_keys=True))
