"""Replay a counterexample file against the real code: fresh interpreter, real ``bitsets``, /repo's working tree,
public API, independent oracle.  exit 1 = reproduced (prints the failures), 0 = not reproduced, 2 = error."""
import json
import os
import sys

REPO = os.environ.get('VERIF_REPO', '/repo')


def main(path):
    with open(path) as f:
        case = json.load(f)
    sys.path.insert(0, REPO)
    import bitsets
    assert not getattr(bitsets, '__symx_model__', False)
    import concepts
    assert os.path.realpath(concepts.__file__).startswith(os.path.realpath(REPO) + os.sep), concepts.__file__
    from checks import replayers
    fn = replayers.REPLAYERS[case['kind']]
    try:
        fails = fn(concepts, case)
    except Exception as e:
        # an exception escaping from REPOSITORY code on the counterexample input is a failure of the real code;
        # an exception raised by the harness itself is a harness error (exit 2), never a verdict
        import traceback
        tb = traceback.extract_tb(e.__traceback__)
        inner = tb[-1].filename if tb else ''
        if not os.path.realpath(inner).startswith(os.path.realpath(REPO) + os.sep):
            raise
        fails = [f'unexpected {type(e).__name__}: {e}', traceback.format_exc()[-1200:]]
    if fails:
        print(f'REPRODUCED property={case.get("property")} kind={case["kind"]}: {len(fails)} failure(s)')
        for x in fails[:12]:
            print('  ', x)
        return 1
    print(f'not reproduced: property={case.get("property")} kind={case["kind"]}')
    return 0


if __name__ == '__main__':
    try:
        sys.exit(main(sys.argv[1]))
    except SystemExit:
        raise
    except BaseException as e:
        import traceback
        traceback.print_exc()
        sys.exit(2)
