"""C15 -- lattice structure is invariant under relabelling, duplication and transposition.

Per table (solver-driven partition of all tables up to the bound through the real constructors): the concepts, covering
relation, joins, meets and property relations of the table are compared -- as statements about labels -- with those of
every row/column permutation (all for <= 3 rows/columns, generators beyond), of the transposed table (dual lattice) and
of the table with a duplicated row / duplicated column / full column inserted at several positions.  These are
relational (metamorphic) comparisons between runs of the real code; no oracle is involved.
Generator level: the real lindig and FCbO generators are run on a symbolic table AND on its transform on the same
path; the solver decides that the two yielded families correspond."""
import z3

from symx import core, harness
from symx.core import _bv
from . import common, gen, pertable, _mk

PID = 'C15'


def _tabguard(get):
    def deco(fn):
        def case(mdl, what):
            objs, props, cells = get()
            return {'kind': f'table:{PID}', 'objects': list(objs), 'properties': list(props),
                    'table': harness.table_from_model(mdl, cells), 'what': what}
        return common.guarded(fn, case)
    return deco


def units(tier, seed):
    t = _mk.QUICK_TABLES if tier == 'quick' else _mk.THOROUGH_TABLES
    us = gen.kernel_units(set(t) | {(m, n) for n, m in t} | {(n + 1, m) for n, m in t} | {(n, m + 1) for n, m in t})
    us += _mk.table_units(t, split_from=6, extra={'pad': 1})
    rel = [(2, 2), (3, 2), (2, 3), (3, 3)] if tier == 'quick' else [(2, 2), (3, 2), (2, 3), (3, 3), (4, 2), (4, 3), (3, 4)]
    for n, m in rel:
        for tr in ('rows', 'cols', 'transpose', 'duprow', 'dupcol'):
            us.append({'name': f'relational {tr} {n}x{m}', 'fn': 'unit_rel', 'args': {'n': n, 'm': m, 'tr': tr},
                       'split': 6 if n * m >= 9 else 0})
    us += _mk.inductive_units(tier) + _mk.skeleton_kernel_units(tier, seed) + _mk.skeleton_units(tier, seed, extra={'pad': 1}, wide=(tier != 'quick'))
    return _mk.order(us)


unit_kernel = _mk.kernel_unit_for(PID)
unit_inductive = _mk.inductive_unit_for(PID)


def unit_table(args, prefix=(), max_depth=None):
    return pertable.unit(PID, 'b15', args, prefix, max_depth)


def unit_rel(args, prefix=(), max_depth=None):
    """two executions of the real generators on one path: table and transformed table"""
    n, m, tr = args['n'], args['m'], args['tr']
    harness.set_width_for(n + 1, m + 1)
    harness.set_kernel_mode('contract')
    concepts = harness.load_concepts()
    from concepts import algorithms
    cells = harness.cell_vars(n, m)
    objs, props = harness.names(n, m)
    W = None

    def perm_bits(x, perm, k):
        """bit i of x moves to position perm[i]"""
        x = _bv(x)
        acc = z3.BitVecVal(0, core.W)
        for i in range(k):
            acc = acc | z3.If(z3.Extract(i, i, x) == 1, z3.BitVecVal(1 << perm[i], core.W), z3.BitVecVal(0, core.W))
        return acc

    @_tabguard(lambda: (objs, props, cells))
    def body():
        cx = core.ctx()
        out = {'cex': [], 'queries': 0}
        c1 = concepts.Context(objs, props, harness.sym_rows(cells))
        rot_r = [(i + 1) % n for i in range(n)]     # row i moves to position rot_r[i]
        rot_c = [(j + 1) % m for j in range(m)]
        if tr == 'rows':
            inv = {rot_r[i]: i for i in range(n)}
            cells2 = [cells[inv[k]] for k in range(n)]
            objs2 = [objs[inv[k]] for k in range(n)]
            c2 = concepts.Context(objs2, props, harness.sym_rows(cells2))
            map_e, map_i = (lambda e: perm_bits(e, rot_r, n)), (lambda i: _bv(i))
        elif tr == 'cols':
            inv = {rot_c[j]: j for j in range(m)}
            cells2 = [[row[inv[k]] for k in range(m)] for row in cells]
            props2 = [props[inv[k]] for k in range(m)]
            c2 = concepts.Context(objs, props2, harness.sym_rows(cells2))
            map_e, map_i = (lambda e: _bv(e)), (lambda i: perm_bits(i, rot_c, m))
        elif tr == 'transpose':
            cells2 = [[cells[i][j] for i in range(n)] for j in range(m)]
            c2 = concepts.Context(props, objs, harness.sym_rows(cells2))
            map_e = map_i = None
        elif tr == 'duprow':
            cells2 = list(cells) + [cells[0]]
            c2 = concepts.Context(objs + ('dup',), props, harness.sym_rows(cells2))
            map_e, map_i = None, (lambda i: _bv(i))
        else:
            cells2 = [list(row) + [row[0]] for row in cells]
            c2 = concepts.Context(objs, props + ('dup',), harness.sym_rows(cells2))
            map_e, map_i = (lambda e: _bv(e)), None
        for gname, g in (('lindig', lambda c: [(e, i) for e, i, _, _ in c._lattice()]),
                         ('fcbo', lambda c: list(algorithms.fast_generate_from(c))),
                         ('fcbo_dual', lambda c: list(algorithms.fcbo_dual(c)))):
            a = [(_bv(e), _bv(i)) for e, i in g(c1)]
            b = [(_bv(e), _bv(i)) for e, i in g(c2)]
            named = []
            if tr == 'transpose':
                fam1 = [(e, i) for e, i in a]
                fam2 = [(i, e) for e, i in b]        # swapped
                same = lambda x, y: z3.And(x[0] == y[0], x[1] == y[1])
            elif tr == 'duprow':
                fam1 = [i for e, i in a]
                fam2 = [i for e, i in b]
                same = lambda x, y: x == y
            elif tr == 'dupcol':
                fam1 = [e for e, i in a]
                fam2 = [e for e, i in b]
                same = lambda x, y: x == y
            else:
                fam1 = [(map_e(e), map_i(i)) for e, i in a]
                fam2 = b
                same = lambda x, y: z3.And(x[0] == y[0], x[1] == y[1])
            for k, x in enumerate(fam1):
                named.append((z3.Or(*[same(x, y) for y in fam2]), f'{gname}/{tr}: concept #{k} of the table has no counterpart'))
            for k, y in enumerate(fam2):
                named.append((z3.Or(*[same(x, y) for x in fam1]), f'{gname}/{tr}: concept #{k} of the transformed table has no counterpart'))
            named.append((z3.BoolVal(len(a) == len(b)), f'{gname}/{tr}: number of concepts differs ({len(a)} vs {len(b)})'))
            out['queries'] += len(named)
            bad = gen._first_failing(cx, named)
            if bad:
                out['cex'].append({'kind': f'table:{PID}', 'objects': list(objs), 'properties': list(props),
                                   'table': harness.table_from_model(bad[0], cells), 'what': bad[1]})
                break
        for msg, mdl in cx.failed_obligations(want_model=True):
            out['cex'].append({'kind': f'table:{PID}', 'objects': list(objs), 'properties': list(props),
                               'table': harness.table_from_model(mdl, cells), 'what': f'obligation: {msg}'})
        mdl = cx.check_fresh(want_model=True)
        if mdl is None:
            out['inconclusive'] = ['vacuous path']
        else:
            if not out['cex']:
                out['witness'] = {'kind': f'table:{PID}', 'objects': list(objs), 'properties': list(props),
                                  'table': harness.table_from_model(mdl, cells)}
            out['sample'] = {'unit': f'relational {tr} {n}x{m}', 'decisions': len(cx.decisions),
                             'a_table_on_this_path': [''.join('X' if c else '.' for c in r)
                                                      for r in harness.table_from_model(mdl, cells)]}
        return out
    res = common.run_paths(body, prefix, max_depth)
    res['bounds'] = f'all {n}x{m} tables, transform {tr} (rotation of rows/columns generates, with the per-table level, all permutations)'
    res['stubs'] = ['closure kernels -> declarative contract (proved equal by the kernel units of this run)']
    return res
