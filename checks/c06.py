"""C06 -- canonical order: shortlex iteration, index/dindex ranks, bottom first, top last.

Generator level: consecutive extents yielded by the real lindig.lattice have strictly increasing symbolic shortlex
keys; per table: iteration order, index, dindex, infimum/supremum/atoms, neighbor tuple orders (object labels chosen
so that label order differs from positional order)."""
from . import gen, pertable, _mk

PID = 'C06'


def units(tier, seed):
    if tier == 'quick':
        g = [(n, m) for n in (1, 2, 3) for m in (1, 2, 3, 4)] + [(4, 2), (4, 3)]
        t = _mk.QUICK_TABLES
    else:
        g = [(n, m) for n in (1, 2, 3) for m in range(1, 7)] + [(4, m) for m in range(1, 5)] + [(5, 2), (5, 3)]
        t = _mk.THOROUGH_TABLES
    us = gen.kernel_units(g)
    for n, m in g:
        us.append({'name': f'lindig order {n}x{m}', 'fn': 'unit_lindig', 'args': {'n': n, 'm': m},
                   'split': (10 if n * m >= 16 else 7) if n * m >= 9 else 0})
    us += _mk.table_units(t)
    us += _mk.inductive_units(tier) + _mk.skeleton_kernel_units(tier, seed) + _mk.skeleton_units(tier, seed)
    return _mk.order(us)


unit_kernel = _mk.kernel_unit_for(PID)
unit_inductive = _mk.inductive_unit_for(PID)


def unit_lindig(args, prefix=(), max_depth=None):
    return gen.lindig_unit(PID, args, prefix, max_depth)


def unit_table(args, prefix=(), max_depth=None):
    return pertable.unit(PID, 'b06', args, prefix, max_depth)
