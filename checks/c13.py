"""C13 -- every edit history of a Definition matches the ordered-table model (one inductive step per operation).

For every ordered subset of the object universe x of the property universe (the reachable order states), with one
symbolic Boolean per cell, every operation instance over the universe plus fresh names is executed by the
merge-interpreter on the real method body and compared with the list-and-set model (defmodel.py) by SMT queries.
By induction over the length of the history this covers edit histories of every length inside the name universe."""
import itertools

import z3

from symx import core, harness, minterp
from symx.symset import SymSet, _z
from . import common, defs
from .defs import T, F

PID = 'C13'


def universes(tier):
    # multi-character labels: CPython shares one object per one-character string, which would hide `is` for `==`
    if tier == 'quick':
        return ['ob', 'oa'], ['py', 'px'], ['on'], ['pq']
    if tier == 'quick3':     # a few three-name states in the quick tier (order effects need >= 3 names)
        return ['ob', 'oa', 'oc'], ['py', 'px', 'pz'], ['on'], ['pq']
    return ['ob', 'oa', 'oc'], ['py', 'px', 'pz'], ['on', 'om'], ['pq', 'pr']


def cp(x):
    """an equal but distinct object for every label inside an argument (labels parsed from a file or built at run time
    are never the very objects stored in the definition)"""
    if isinstance(x, str):
        return ''.join(list(x))
    if isinstance(x, tuple):
        return tuple(cp(y) for y in x)
    if isinstance(x, list):
        return [cp(y) for y in x]
    return x


def quick3_states():
    """(object state index, property state indexes) over the 3x3 universe used by the quick tier"""
    UO, UP, _, _ = universes('quick3')
    os_, ps_ = defs.ordered_subsets(UO), defs.ordered_subsets(UP)
    want_o = [UO, [UO[2], UO[0], UO[1]]]
    want_p = [UP, [UP[2], UP[0], UP[1]], [UP[1], UP[0]]]
    return [os_.index(o) for o in want_o], [ps_.index(p) for p in want_p]


def units(tier, seed):
    UO, UP, FO, FP = universes(tier)
    ostates = defs.ordered_subsets(UO)
    pstates = defs.ordered_subsets(UP)
    us = []
    groups = ['cells', 'add', 'set', 'remove_rename_move', 'binary']
    for oi in range(len(ostates)):
        for g in groups:
            if tier == 'quick':
                us.append({'name': f'{g} objects={ostates[oi]}', 'fn': 'unit_ops',
                           'args': {'tier': tier, 'oi': oi, 'pis': list(range(len(pstates))), 'group': g, 'n': 1, 'm': 1}})
            else:
                for chunk in range(0, len(pstates), 4):
                    us.append({'name': f'{g} objects={ostates[oi]}', 'fn': 'unit_ops',
                               'args': {'tier': tier, 'oi': oi, 'pis': list(range(chunk, min(chunk + 4, len(pstates)))),
                                        'group': g, 'n': 1, 'm': 1}})
    if tier == 'quick':
        ois, pis = quick3_states()
        o3 = defs.ordered_subsets(universes('quick3')[0])
        for oi in ois:
            for g in groups:
                us.append({'name': f'{g} objects={o3[oi]} (3x3 universe)', 'fn': 'unit_ops',
                           'args': {'tier': 'quick3', 'oi': oi, 'pis': pis, 'group': g, 'n': 2, 'm': 1}})
    return us


def instances(group, O, P, UO, UP, FO, FP, tier):
    """operation instances for one state: (name, args)"""
    no, np_ = defs.rep_names(O, UO, FO), defs.rep_names(P, UP, FP)
    out = []
    if group == 'cells':
        for o in no:
            for p in np_:
                out.append(('setitem', ((o, p), 'V')))
                out.append(('getitem', ((o, p),)))
        out += [('remove_empty_objects', ()), ('remove_empty_properties', ()), ('bools', ()), ('construct', ()),
                ('iter', ()), ('eq_fresh', ())]
    elif group == 'add':
        for o in no:
            for lst in defs.short_lists(np_):
                out.append(('add_object', (o, lst)))
        for p in np_:
            for lst in defs.short_lists(no):
                out.append(('add_property', (p, lst)))
    elif group == 'set':
        for o in no:
            for lst in defs.short_lists(np_):
                out.append(('set_object', (o, lst)))
        for p in np_:
            for lst in defs.short_lists(no):
                out.append(('set_property', (p, lst)))
    elif group == 'remove_rename_move':
        for o in no:
            out.append(('remove_object', (o,)))
            for new in no:
                out.append(('rename_object', (o, new)))
            for idx in (-1, 0, 1, 2, 5):
                out.append(('move_object', (o, idx)))
        for p in np_:
            out.append(('remove_property', (p,)))
            for new in np_:
                out.append(('rename_property', (p, new)))
            for idx in (-1, 0, 1, 2, 5):
                out.append(('move_property', (p, idx)))
    elif group == 'binary':
        others_o = [list(x) for x in defs.ordered_subsets(UO + FO[:1]) if len(x) <= 2]
        others_p = [list(x) for x in defs.ordered_subsets(UP + FP[:1]) if len(x) <= 2]
        others_o = others_o[::2] + [list(reversed(UO))]
        others_p = others_p[1::2] + [list(reversed(UP))]
        if tier == 'quick3':
            others_o = [list(reversed(UO)), [UO[2], UO[0]], [UO[1], FO[0], UO[0]], []]
            others_p = [list(reversed(UP)), [UP[2], UP[0]], [UP[1]]]
        for O2 in others_o:
            for P2 in others_p:
                for name in ('union_update', 'intersection_update'):
                    for ignore in (False, True):
                        out.append((name, (O2, P2, ignore)))
                out.append(('__ior__', (O2, P2, False)))
                out.append(('__iand__', (O2, P2, False)))
    return out


def unit_ops(args, prefix=(), max_depth=None):
    tier, group = args['tier'], args['group']
    UO, UP, FO, FP = universes(tier)
    core.set_width(10)
    harness.set_kernel_mode('contract')
    eng = defs.Engine()
    D = eng.D
    MI = minterp.call
    ostates, pstates = defs.ordered_subsets(UO), defs.ordered_subsets(UP)
    O = ostates[args['oi']]
    total = {'paths': 0, 'cex': [], 'queries': 0, 'cuts': [], 'samples': [], 'inconclusive': [], 'witnesses': []}
    V = z3.Bool('value')
    nruns = 0
    try:
        for pi in args['pis']:
            P = pstates[pi]
            for name, a in instances(group, O, P, UO, UP, FO, FP, tier):
                nruns += 1

                def body(name=name, a0=a):
                    cx = core.ctx()
                    a = cp(a0)
                    d, m = eng.mk(cp(O), cp(P), 'd')
                    C = dict(m)
                    out = {'cex': [], 'queries': 0}
                    other = None
                    extra = []
                    raised = None
                    rv = None
                    what = f'{name}{a!r} on {O} x {P}'
                    try:
                        if name == 'setitem':
                            exp = defs.m_setitem(O, P, C, a[0][0], a[0][1], V)
                            MI(D.__setitem__, d, a[0], core.SymBool(V))
                        elif name == 'getitem':
                            o, p = a[0]
                            known = o in O and p in P
                            exp = (O, P, C, None, not known)
                            rv = MI(D.__getitem__, d, a[0])
                            if known:
                                extra.append((core.tob(rv) == C[(o, p)], f'{what}: wrong cell value returned'))
                        elif name in ('remove_empty_objects', 'remove_empty_properties'):
                            rv = MI(getattr(D, name), d)
                            if name == 'remove_empty_objects':
                                empty = {o: z3.Not(z3.Or(*[C[(o, p)] for p in P])) if P else T for o in O}
                                On, Pn = [o for o in O if o not in rv], P
                                keys = O
                            else:
                                empty = {p: z3.Not(z3.Or(*[C[(o, p)] for o in O])) if O else T for p in P}
                                On, Pn = O, [p for p in P if p not in rv]
                                keys = P
                            extra.append((z3.And(*[empty[k] == z3.BoolVal(k in rv) for k in keys]) if keys else T,
                                          f'{what}: removed names are not exactly the empty ones'))
                            extra.append((z3.BoolVal(isinstance(rv, list) and rv == [k for k in keys if k in rv]),
                                          f'{what}: return value {rv!r} is not the removed names in order'))
                            exp = (On, Pn, {(o, p): C[(o, p)] for o in On for p in Pn}, None, False)
                        elif name == 'bools':
                            b = MI(D.bools.fget, d)
                            ok = isinstance(b, list) and len(b) == len(O) and all(isinstance(r, tuple) and len(r) == len(P) for r in b)
                            extra.append((z3.And(*[core.tob(b[i][j]) == C[(o, p)] for i, o in enumerate(O)
                                                   for j, p in enumerate(P)]) if ok and O and P else z3.BoolVal(ok),
                                          f'{what}: bools is not the rectangular table of the cells'))
                            extra.append((z3.BoolVal(MI(D.objects.fget, d) == tuple(O) and MI(D.properties.fget, d) == tuple(P)),
                                          f'{what}: objects/properties'))
                            exp = (O, P, C, None, False)
                        elif name == 'construct':
                            rows = [tuple(core.SymBool(C[(o, p)]) for p in P) for o in O]
                            d = D.__new__(D)
                            MI(D.__init__, d, list(O), list(P), rows)
                            exp = (O, P, C, None, False)
                            for dup_o, dup_p in ((O + O[:1], P), (O, P + P[:1])):
                                if len(dup_o) != len(set(dup_o)) or len(dup_p) != len(set(dup_p)):
                                    try:
                                        MI(D.__init__, D.__new__(D), dup_o, dup_p, [tuple(False for _ in dup_p) for _ in dup_o])
                                        extra.append((F, f'Definition({dup_o}, {dup_p}, ...) accepted duplicates'))
                                    except ValueError:
                                        pass
                        elif name == 'iter':
                            got = list(MI(D.__iter__, d).items)
                            ok = len(got) == 3 and all(g is True for g, _ in got) and got[0][1] == tuple(O) and got[1][1] == tuple(P)
                            extra.append((z3.BoolVal(ok), f'{what}: iteration does not yield (objects, properties, bools)'))
                            exp = (O, P, C, None, False)
                        elif name == 'eq_fresh':
                            d2, m2 = eng.mk(O, P, 'e')
                            r = MI(D.__eq__, d, d2)
                            extra.append((core.tob(r) == (z3.And(*[C[k] == m2[k] for k in C]) if C else T),
                                          f'{what}: == is not cell-wise equality'))
                            exp = (O, P, C, None, False)
                        elif name in ('union_update', 'intersection_update', '__ior__', '__iand__'):
                            O2, P2, ignore = a
                            other, m2 = eng.mk(O2, P2, 'e')
                            model = defs.m_union if name in ('union_update', '__ior__') else defs.m_intersection
                            exp = model(O, P, C, O2, P2, dict(m2), ignore)
                            if name.startswith('__'):
                                rv = MI(getattr(D, name), d, other)
                                extra.append((z3.BoolVal(rv is d), f'{what}: in-place operator did not return self'))
                            else:
                                MI(getattr(D, name), d, other, ignore)
                        else:
                            method, model, kind = defs.defmodel.OPS[name]
                            exp = model(O, P, C, *a)
                            rv = MI(getattr(D, method), d, *a)
                            extra.append((z3.BoolVal(rv is None), f'{what}: returned {rv!r}'))
                    except (KeyError, ValueError) as e:
                        raised = type(e).__name__
                    if other is not None:
                        extra.append((z3.BoolVal(list(other._objects) == a[0] and list(other._properties) == a[1]),
                                      f'{what}: the argument definition was changed'))
                        comps = lambda x: [x._objects, x._objects._seen, x._objects._items, x._properties,
                                           x._properties._seen, x._properties._items, x._pairs]
                        extra.append((z3.BoolVal(not any(a_ is b_ for a_ in comps(d) for b_ in comps(other))),
                                      f'{what}: receiver and argument share a mutable component afterwards'))
                        got2 = eng.cells(other)
                        extra.append((z3.And(*[got2[k] == m2[k] for k in m2]) if m2 else T,
                                      f'{what}: cells of the argument definition were changed'))
                    fails = defs.check_post(eng, cx, d, (O, P, C), exp, raised, rv, what, extra)
                    out['queries'] += 3 + len(extra)
                    for msg, mdl in cx.failed_obligations(want_model=True):
                        fails.append((mdl, f'{what}: obligation {msg}'))
                    for mdl, msg in fails:
                        case = {'kind': 'defedit', 'objects': list(O), 'properties': list(P),
                                'true_cells': [[o, p] for (o, p), v in m.items()
                                               if mdl is not None and z3.is_true(mdl.eval(v, model_completion=True))],
                                'op': [name] + [list(x) if isinstance(x, tuple) else x for x in a], 'what': msg}
                        if name == 'setitem':
                            case['op'] = ['setitem', list(a[0]),
                                          bool(mdl is not None and z3.is_true(mdl.eval(V, model_completion=True)))]
                        if other is not None:
                            case['op'] = [name]
                            case['ignore'] = a[2]
                            case['other'] = {'objects': a[0], 'properties': a[1], 'true_cells': [
                                [o, p] for (o, p), v in m2.items()
                                if mdl is not None and z3.is_true(mdl.eval(v, model_completion=True))]}
                        out['cex'].append(case)
                    if not fails and nruns % 23 == 0 and name in defs.defmodel.OPS and other is None:
                        mdl = cx.check_fresh(want_model=True)
                        if mdl is not None:
                            w = {'kind': 'defedit', 'objects': list(O), 'properties': list(P),
                                 'true_cells': [[o, p] for (o, p), v in m.items()
                                                if z3.is_true(mdl.eval(v, model_completion=True))],
                                 'op': [name] + [list(x) if isinstance(x, tuple) else x for x in a]}
                            if name == 'setitem':
                                w['op'] = ['setitem', list(a[0]), bool(z3.is_true(mdl.eval(V, model_completion=True)))]
                            out['witness'] = w
                    out['sample'] = {'unit': args.get('_name'), 'state': [O, P], 'operation': [name, repr(a)],
                                     'outcome_on_path': raised or 'ok', 'cells': 'symbolic (one Boolean per cell)'}
                    return out
                r = common.run_paths(common.guarded(body), max_samples=1)
                total['paths'] += r['paths']
                total['queries'] += r['queries']
                total['cex'] += r['cex'][:2]
                total['inconclusive'] += r['inconclusive']
                if len(total['witnesses']) < 3:
                    total['witnesses'] += r.get('witnesses', [])[:1]
                if len(total['samples']) < 2 and nruns % 7 == 1:
                    total['samples'] += r['samples'][:1]
    finally:
        eng.close()
    total['encoded'] = dict(minterp.ENCODED)
    total['bounds'] = (f'object universe {UO}+{FO}, property universe {UP}+{FP}; object order state {O} x property order '
                       f'states {[pstates[i] for i in args["pis"]]}; group {group}: {nruns} (state, operation) instances, '
                       f'every cell filling symbolically')
    total['stubs'] = ['Definition._pairs -> SymSet (symbolic membership per cell)', 'state constructed directly via Definition._fromargs']
    total['assumptions'] = ['representation invariant of the pre-state: no true cell outside objects x properties '
                            '(re-established after every operation by the residue check)']
    return total
