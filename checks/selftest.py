"""Validation of the machinery itself (Serval style): the symbolic ``bitsets`` model against the real library, the
repository's own fixtures pushed through the real code under the model (concrete mode) against the real-bitsets
results, and the merge-interpreter against CPython.  A mismatch is a harness error (exit 3), never a verdict about
the repository.  Run: python -m checks.selftest   (prints OK / mismatches; exit 0 / 3)"""
import glob
import os
import sys

REPO = os.environ.get('VERIF_REPO', '/repo')
SMALL_CXT = ['digits.cxt', 'gewaesser.cxt', 'lattice.cxt', 'liveinwater.cxt', 'tealady.cxt']


def _purge():
    for k in [k for k in sys.modules if k == 'bitsets' or k.startswith('bitsets.') or k == 'concepts'
              or k.startswith('concepts.')]:
        del sys.modules[k]


def bitset_observables(bitsets, members, values, tuple_cls=None):
    """plain-data observables of the bitset API surface concepts uses"""
    B = bitsets.bitset('Dom', members, bitsets.bases.MemberBits, tuple=tuple_cls or True)
    out = {}
    n = len(members)
    for v in values:
        x = B.fromint(v)
        o = {}
        o['members'] = tuple(x.members())
        o['members_set'] = sorted(x.members(as_set=True))
        o['bools'] = tuple(bool(b) for b in x.bools())
        o['bits'] = x.bits()
        o['iter_set'] = tuple(x.iter_set())
        o['indexes'] = tuple(x._indexes())
        o['atoms'] = tuple(int(a) for a in x.atoms())
        o['atoms_rev'] = tuple(int(a) for a in x.atoms(reverse=True))
        o['inatoms'] = tuple(int(a) for a in x.inatoms())
        o['shortlex'] = tuple(int(k) for k in x.shortlex())
        o['longlex'] = tuple(int(k) for k in x.longlex())
        o['count'] = int(x.count())
        o['count_false'] = int(x.count(False))
        o['all'] = bool(x.all())
        o['any'] = bool(x.any())
        o['int'] = int(x.int)
        o['copy_is_self'] = x.copy() is x
        o['atomic'] = tuple(int(a) for a in B.atomic(x))
        o['inatomic'] = tuple(int(a) for a in B.inatomic(x))
        o['frommembers'] = int(B.frommembers(x.members()))
        o['frommembers_dup'] = int(B.frommembers(list(x.members()) * 2))
        o['frombools'] = int(B.frombools(x.bools()))
        o['frombools_ints'] = int(B.frombools([2 if b else 0 for b in x.bools()]))
        o['and_type_plain'] = type(x & B.supremum).__name__ in ('int', 'SymInt')
        o['invert'] = int(~x)
        o['neg_and'] = int(x & -x)
        o['bit_length'] = int(x.bit_length())
        if bin(v).count('1') <= 4:
            o['powerset'] = tuple(int(p) for p in x.powerset())
        out[v] = o
    out['infimum'] = int(B.infimum)
    out['supremum'] = int(B.supremum)
    out['map'] = {m: int(a) for m, a in B._map.items()}
    out['_members'] = tuple(B._members)
    out['reduce_and'] = int(B.reduce_and(B.fromint(v) for v in values[:3]))
    out['reduce_or'] = int(B.reduce_or(B.fromint(v) for v in values[:3]))
    out['reduce_and_empty'] = int(B.reduce_and([]))
    out['reduce_or_empty'] = int(B.reduce_or([]))
    T = B.Tuple.frombools([B.fromint(v).bools() for v in values[:5]])
    out['series_index_sets'] = [tuple(t) for t in T.index_sets()]
    out['series_bools'] = [tuple(bool(b) for b in r) for r in T.bools()]
    out['series_ints'] = [int(i) for i in T.ints()]
    out['series_len'] = len(T)
    out['series_getitem'] = int(T[1]) if len(T) > 1 else None
    try:
        B.frommembers(['no such member'])
        out['unknown_member'] = 'no error'
    except KeyError:
        out['unknown_member'] = 'KeyError'
    for bad in ([], 'aa'):
        try:
            bitsets.bitset('Bad', bad, bitsets.bases.MemberBits)
            out[f'bad_{bad!r}'] = 'no error'
        except ValueError:
            out[f'bad_{bad!r}'] = 'ValueError'
    return out


def boundary_values(n):
    full = (1 << n) - 1
    vals = {0, 1, full, full >> 1, 1 << (n - 1), (1 << (n - 1)) | 1, 0b101 & full, 0b110 & full,
            int('10' * n, 2) & full, int('01' * n, 2) & full}
    for k in (30, 31, 32, 33, 62, 63, 64, 65):
        if k < n:
            vals |= {1 << k, (1 << k) - 1, (1 << k) | 1, full ^ (1 << k)}
    return sorted(vals)


def context_observables(concepts, with_lattice=True):
    out = {}
    srcs = {'EXAMPLE': concepts.EXAMPLE}
    ctxs = {'EXAMPLE': concepts.Context.fromstring(concepts.EXAMPLE)}
    for name in SMALL_CXT:
        p = os.path.join(REPO, 'examples', name)
        if os.path.exists(p):
            ctxs[name] = concepts.load_cxt(p)
    ctxs['1x1'] = concepts.Context(['o'], ['p'], [(True,)])
    ctxs['2x1'] = concepts.Context(['a', 'b'], ['p'], [(True,), (False,)])
    ctxs['dups'] = concepts.Context('abcd', 'wxyz', [(1, 1, 0, 0), (1, 1, 0, 0), (0, 0, 0, 0), (1, 1, 1, 1)])
    ctxs['wide'] = concepts.Context([f'o{i}' for i in range(70)], ['p', 'q', 'r'],
                                    [(i % 2 == 0, i % 3 == 0, i > 64) for i in range(70)])
    for name, c in ctxs.items():
        o = {'objects': tuple(c.objects), 'properties': tuple(c.properties),
             'bools': [tuple(bool(b) for b in r) for r in c.bools], 'table': c.tostring(),
             'relations': [(r.kind, r.left, r.right if r.__class__.binary else None)
                           for r in c.relations(include_unary=True)],
             'dict': c.todict(ignore_lattice=True)}
        if with_lattice:
            l = c.lattice
            o['tolist'] = [tuple(tuple(int(i) for i in part) for part in item) for item in l._tolist()]
            o['str'] = str(l).split('\n', 1)[1]
            o['labels'] = [(tuple(x.objects), tuple(x.properties)) for x in l]
            o['atoms'] = [tuple(a.extent) for a in l.atoms]
            o['minimal'] = [tuple(x.minimal()) for x in l]
            o['dot'] = l.graphviz().source.split('\n', 1)[1]
            o['fcbo'] = sorted((tuple(e.members()), tuple(i.members()))
                               for e, i in concepts.algorithms.fast_generate_from(c))
            o['dual'] = sorted((tuple(e.members()), tuple(i.members()))
                               for e, i in concepts.algorithms.fcbo_dual(c))
            o['join01'] = tuple(l.join([l[0], l[-1]]).extent)
            o['neighbors'] = c.neighbors(c.objects[:1])
            o['upset1'] = [x.index for x in l[len(l) // 2].upset()]
            o['downset_union'] = [x.index for x in l.downset_union([l[len(l) // 2], l[-1]])]
        out[name] = o
    return out


def definition_observables(concepts):
    D = concepts.Definition
    d = D(['a', 'b'], ['x', 'y'], [(True, False), (False, True)])
    out = []

    def snap(tag, rv=None):
        out.append((tag, tuple(d.objects), tuple(d.properties), [tuple(r) for r in d.bools], rv))
    d['a', 'z'] = True; snap('setitem')
    d.rename_object('a', 'q'); snap('rename')
    d.add_object('n', ['x', 'w']); snap('add_object')
    d.set_property('x', ['b']); snap('set_property')
    snap('remove_empty', d.remove_empty_properties())
    d.move_object('n', 0); snap('move')
    e = D(['b', 'c'], ['y', 'v'], [(True, True), (False, False)])
    snap('union', tuple((d | e).bools))
    snap('take', tuple(d.take(['b'], ['y', 'x'], reorder=True).properties))
    d.remove_object('q'); snap('remove')
    return out


def run():
    mismatches = []
    sys.path.insert(0, REPO)
    import bitsets as real
    assert not getattr(real, '__symx_model__', False)
    import concepts as real_concepts
    doms = {n: tuple(f'm{i}' for i in range(n)) for n in (1, 2, 3, 8, 20, 70)}
    want_bits = {n: bitset_observables(real, doms[n], boundary_values(n)) for n in doms}
    want_ctx = context_observables(real_concepts)
    want_def = definition_observables(real_concepts)
    _purge()

    from symx import core, bitsets_model, harness, minterp
    core.set_width(74)
    concepts = harness.load_concepts()
    import bitsets as model
    assert model.__symx_model__
    for n in doms:
        got = bitset_observables(model, doms[n], boundary_values(n), tuple_cls=bitsets_model.Tuple)
        if got != want_bits[n]:
            for k in want_bits[n]:
                if got.get(k) != want_bits[n][k]:
                    mismatches.append(f'bitsets model n={n} key={k}: {got.get(k)!r} != {want_bits[n][k]!r}'[:400])
                    break
    # symbolic values pinned by equality must evaluate like the real library
    import z3
    for n in (3, 20, 70):
        B = model.bitset('Dom', doms[n], model.bases.MemberBits)
        for v in boundary_values(n)[:12]:
            def body():
                cx = core.ctx()
                xv = z3.BitVec('x', core.W)
                cx.assume(xv == v)
                x = B.fromint(core.SymInt(xv))
                w = want_bits[n][v]
                terms = [core._bv(x.shortlex()[0]) == w['shortlex'][0], core._bv(x.shortlex()[1]) == w['shortlex'][1],
                         core._bv(x.longlex()[0]) == w['longlex'][0], core._bv(x.count()) == w['count'],
                         core._bv(x.bit_length()) == w['bit_length'], core._bv(x & -x) == w['neg_and'],
                         core._bv(~x) == w['invert'],
                         z3.And(*[core.tob(b) == wb for b, wb in zip(x.bools(), w['bools'])])]
                bad = cx.check_fresh(z3.Not(z3.And(*terms)))
                return bad, cx.failed_obligations()
            for (bad, errs), cx, st in core.explore(body):
                if bad or errs:
                    mismatches.append(f'symbolic bitset value n={n} v={v:#x}: bad={bad} obligations={errs}')
    for mode in ('real', 'merged', 'contract'):
        harness.set_kernel_mode(mode)

        def body():
            return context_observables(concepts, with_lattice=True)
        for got, cx, st in core.explore(body):
            if cx.decisions:
                mismatches.append(f'fixtures under model ({mode}): unexpected fork')
            for name in want_ctx:
                if got.get(name) != want_ctx[name]:
                    for k in want_ctx[name]:
                        if got[name].get(k) != want_ctx[name][k]:
                            mismatches.append(f'fixture {name} ({mode} kernels) key={k}: '
                                              f'{got[name].get(k)!r} != {want_ctx[name][k]!r}'[:500])
                            break
            errs = cx.failed_obligations()
            if errs:
                mismatches.append(f'fixtures under model ({mode}): obligations {errs[:3]}')
    harness.set_kernel_mode('real')
    # merge-interpreter vs CPython on concrete inputs
    from concepts import definitions, lattice_members, tools
    from concepts.algorithms import lindig
    from symx.symset import SymSet

    def body():
        res = []
        saved = (minterp.SET_FACTORY, set(minterp.MERGE_FUNCS), dict(minterp.BUILTIN_MODELS))
        try:
            for cls in (definitions.MutableMixin, definitions.TransformableMixin, definitions.Triple,
                        definitions.Definition):
                minterp.register_class(cls)
            minterp.register(definitions.conflicting_pairs)
            minterp.register(definitions.ensure_compatible)
            res.append(definition_observables_minterp(concepts, minterp))
        finally:
            minterp.SET_FACTORY = saved[0]
            minterp.MERGE_FUNCS.clear()
            minterp.MERGE_FUNCS.update(saved[1])
            minterp.BUILTIN_MODELS.clear()
            minterp.BUILTIN_MODELS.update(saved[2])
        c = concepts.Context.fromstring(concepts.EXAMPLE)
        for e in list(c._extents)[:4]:
            res.append([(int(a), int(b)) for a, b in minterp.call(lindig.neighbors, e, Objects=c._Objects).items
                        if isinstance(a, tuple) is False] if False else
                       sorted((int(x[0]), int(x[1])) for g, x in
                              minterp.call(lindig.neighbors, e.double(), Objects=c._Objects).items if g is True))
            res.append(sorted((int(x), int(i)) for x, i in lindig.neighbors(e.double(), Objects=c._Objects)))
        return res
    for got, cx, st in core.explore(body):
        if got[0] != want_def:
            mismatches.append(f'merge-interpreter Definition transcript differs from CPython: {got[0]!r} vs {want_def!r}'[:600])
        for a, b in zip(got[1::2], got[2::2]):
            if a != b:
                mismatches.append(f'merge-interpreter neighbors differs from CPython: {a} vs {b}')
    # control flow of the merge-interpreter (guarded break / continue / return) vs CPython on small domains
    from checks import mi_cases
    core.set_width(12)
    minterp.LOOP_BOUNDS[('f_continue', 0)] = lambda fr: fr.lookup('n')
    minterp.LOOP_BOUNDS[('f_break', 0)] = lambda fr: fr.lookup('n')
    for fn, n in mi_cases.CASES + [(mi_cases.f_for, None)]:
        def body():
            cx = core.ctx()
            xv = z3.BitVec('x', core.W)
            cx.assume(xv >= 0, xv < 64)
            arg = [0, 1, 3, 4] if n is None else n
            got = minterp.call(fn, core.SymInt(xv), arg)
            bad = []
            for v in range(64):
                want = fn(v, arg)
                if cx.check_fresh(xv == v, core._bv(got) != want):
                    bad.append((v, want))
            return bad, cx.failed_obligations()
        for (bad, errs), cx, st in core.explore(body):
            if bad or errs:
                mismatches.append(f'merge-interpreter control flow {fn.__name__}: wrong for inputs {bad[:4]} obligations {errs[:2]}')
    return mismatches


def definition_observables_minterp(concepts, minterp):
    """the same edit transcript as definition_observables, but every method runs in the merge-interpreter"""
    D = concepts.Definition
    MI = minterp.call
    d = D(['a', 'b'], ['x', 'y'], [(True, False), (False, True)])
    out = []

    def snap(tag, rv=None):
        out.append((tag, tuple(d.objects), tuple(d.properties), [tuple(r) for r in d.bools], rv))
    MI(D.__setitem__, d, ('a', 'z'), True); snap('setitem')
    MI(D.rename_object, d, 'a', 'q'); snap('rename')
    MI(D.add_object, d, 'n', ['x', 'w']); snap('add_object')
    MI(D.set_property, d, 'x', ['b']); snap('set_property')
    snap('remove_empty', MI(D.remove_empty_properties, d))
    MI(D.move_object, d, 'n', 0); snap('move')
    e = D(['b', 'c'], ['y', 'v'], [(True, True), (False, False)])
    snap('union', tuple(MI(D.union, d, e).bools))
    snap('take', tuple(MI(D.take, d, ['b'], ['y', 'x'], reorder=True).properties))
    MI(D.remove_object, d, 'q'); snap('remove')
    return out


def main():
    here = os.path.dirname(os.path.dirname(os.path.abspath(__file__)))
    for p in (os.path.join(here, '.deps'), here):
        if p not in sys.path:
            sys.path.insert(0, p)
    mm = run()
    if mm:
        for m in mm:
            print('SELFTEST MISMATCH', m)
        return 3
    print('selftest OK: bitsets model == real library on boundary domains; fixtures agree under all kernel modes; '
          'merge-interpreter == CPython')
    return 0


if __name__ == '__main__':
    sys.exit(main())
