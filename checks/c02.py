"""C02 -- concept lookup returns the least formal concept containing the query.

(a) closure laws on the real merged double/doubleprime kernels for symbolic tables and symbolic x, y: extensive,
    idempotent, monotone, result is a formal concept, least among closed supersets;
(b) real Context.__getitem__ on symbolic tables for every non-empty subset of object labels / property labels;
(c) lattice[items], lattice(properties), lattice[i], lattice[()] per table (identity of the member object)."""
import itertools

import z3

from symx import core, harness, minterp
from symx.core import _bv
from . import common, gen, pertable, _mk

PID = 'C02'


def _tabguard(get):
    def deco(fn):
        def case(mdl, what):
            objs, props, cells = get()
            return {'kind': f'table:{PID}', 'objects': list(objs), 'properties': list(props),
                    'table': harness.table_from_model(mdl, cells), 'what': what}
        return common.guarded(fn, case)
    return deco


def units(tier, seed):
    if tier == 'quick':
        laws = [(n, m) for n in range(1, 6) for m in range(1, 6) if abs(n - m) <= 1]
        gi = [(2, 2), (3, 3), (4, 3), (3, 4)]
        t = _mk.QUICK_TABLES
    else:
        laws = [(n, m) for n in range(1, 7) for m in range(1, 7)]
        gi = [(n, m) for n in range(1, 6) for m in range(1, 6)]
        t = _mk.THOROUGH_TABLES
    us = gen.kernel_units(set(t))
    us += [{'name': f'closure laws {n}x{m}', 'fn': 'unit_laws', 'args': {'n': n, 'm': m}} for n, m in laws]
    us += [{'name': f'getitem {n}x{m}', 'fn': 'unit_getitem', 'args': {'n': n, 'm': m}} for n, m in gi]
    us += _mk.table_units(t)
    us += _mk.inductive_units(tier) + _mk.skeleton_kernel_units(tier, seed) + _mk.skeleton_units(tier, seed)
    return _mk.order(us)


unit_kernel = _mk.kernel_unit_for(PID)
unit_inductive = _mk.inductive_unit_for(PID)


def unit_table(args, prefix=(), max_depth=None):
    return pertable.unit(PID, 'b02', args, prefix, max_depth)


def _case(mdl, cells, n, m, what):
    objs, props = harness.names(n, m)
    return {'kind': f'table:{PID}', 'objects': list(objs), 'properties': list(props),
            'table': harness.table_from_model(mdl, cells), 'what': what}


def unit_laws(args, prefix=(), max_depth=None):
    n, m = args['n'], args['m']
    harness.set_width_for(n, m)
    harness.set_kernel_mode('real')
    harness.load_concepts()
    from concepts import matrices
    cells = harness.cell_vars(n, m)
    objs, props = harness.names(n, m)

    @_tabguard(lambda: (objs, props, cells))
    def body():
        cx = core.ctx()
        intents, extents = matrices.Relation('Properties', 'Objects', props, objs, harness.sym_rows(cells))
        out = {'cex': [], 'queries': 0}
        for side, vec, other, L in (('objects', extents, intents, n), ('properties', intents, extents, m)):
            S = vec.BitSet
            full = (1 << L) - 1
            x, y = z3.BitVec(f'x_{side}', core.W), z3.BitVec(f'y_{side}', core.W)
            pre = z3.And(z3.ULE(x, full), z3.ULE(y, full))
            cx.assume(pre)
            ks, ko = harness.real_kernels(vec), harness.real_kernels(other)
            D = lambda v: _bv(minterp.call(ks['double'], S.fromint(core.SymInt(v))))
            dx, dy = D(x), D(y)
            ddx = D(dx)
            e, i = minterp.call(ks['doubleprime'], S.fromint(core.SymInt(x)))
            back = _bv(minterp.call(ko['prime'], i))
            pi = _bv(minterp.call(ks['prime'], S.fromint(core.SymInt(_bv(e)))))
            sub = harness.subset
            laws = {'extensive': sub(x, dx), 'idempotent': ddx == dx, 'monotone': z3.Implies(sub(x, y), sub(dx, dy)),
                    'least among closed supersets': z3.Implies(z3.And(sub(x, y), dy == y), sub(dx, y)),
                    'result is a formal concept': z3.And(_bv(e) == dx, back == _bv(e), pi == _bv(i))}
            for k, f in laws.items():
                out['queries'] += 1
                mdl = cx.check_fresh(pre, z3.Not(f), want_model=True)
                if mdl is not None:
                    out['cex'].append(_case(mdl, cells, n, m, f'closure law on {side}: {k}'))
        for msg, mdl in cx.failed_obligations(want_model=True):
            out['cex'].append(_case(mdl, cells, n, m, f'obligation: {msg}'))
        out['sample'] = {'unit': f'closure laws {n}x{m}', 'laws': ['extensive', 'idempotent', 'monotone', 'least', 'concept'],
                         'inputs': 'symbolic table, symbolic x and y, both sides'}
        return out
    res = common.run_paths(body, prefix, max_depth)
    res['encoded'] = harness.encoded(matrices.Vectors._pair_with)
    res['bounds'] = f'all {n}x{m} tables x all pairs of subsets (objects side and properties side)'
    return res


def unit_getitem(args, prefix=(), max_depth=None):
    n, m = args['n'], args['m']
    harness.set_width_for(n, m)
    harness.set_kernel_mode('merged')
    concepts = harness.load_concepts()
    cells = harness.cell_vars(n, m)
    objs, props = harness.names(n, m)

    @_tabguard(lambda: (objs, props, cells))
    def body():
        cx = core.ctx()
        ctx = concepts.Context(objs, props, harness.sym_rows(cells))
        sp = harness.Spec(cells)
        named = []
        for k in range(1, n + 1):
            for sub in itertools.combinations(range(n), k):
                q = [objs[i] for i in sub]
                e, i = ctx.__getitem__(q, raw=True)
                a = sum(1 << i_ for i_ in sub)
                named.append((z3.And(_bv(e) == sp.closure_o(a), _bv(i) == sp.intent(a)), f'context[{q}] (objects)'))
                e2, i2 = ctx.__getitem__(list(reversed(q)) + q[:1], raw=True)
                named.append((z3.And(_bv(e2) == _bv(e), _bv(i2) == _bv(i)), f'context[{q}] order/duplicates'))
        for k in range(1, m + 1):
            for sub in itertools.combinations(range(m), k):
                q = [props[j] for j in sub]
                e, i = ctx.__getitem__(q, raw=True)
                b = sum(1 << j for j in sub)
                named.append((z3.And(_bv(e) == sp.extent(b), _bv(i) == sp.closure_p(b)), f'context[{q}] (properties)'))
        out = {'cex': [], 'queries': len(named)}
        bad = gen._first_failing(cx, named)
        if bad:
            out['cex'].append(_case(bad[0], cells, n, m, bad[1]))
        for msg, mdl in cx.failed_obligations(want_model=True):
            out['cex'].append(_case(mdl, cells, n, m, f'obligation: {msg}'))
        out['sample'] = {'unit': f'getitem {n}x{m}', 'queries': len(named), 'inputs': 'symbolic table, every non-empty label subset'}
        return out
    res = common.run_paths(body, prefix, max_depth)
    res['encoded'] = harness.encoded(concepts.Context.__getitem__)
    res['bounds'] = f'all {n}x{m} tables x every non-empty subset of object labels and of property labels'
    return res
