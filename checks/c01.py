"""C01 -- derivation operators are exactly the Galois connection of the table.

L1  real prime/double/doubleprime closures (matrices.Vectors._pair_with), merge-interpreted with full unrolling and
    unwinding assertions, on a fully symbolic table and a symbolic argument, vs. the declarative derivation.
L2  the same closures at widths beyond a machine word by ONE inductive step of the real loop body from an
    arbitrary invariant state (no unrolling).
L3  Context(...).intension/extension/bools/objects/properties on a symbolic table for every label subset,
    duplicates, permutations, iterables; raw and label forms.
"""
import itertools
import random
import time

import z3

from symx import core, harness, minterp
from symx.core import _bv
from . import common

PID = 'C01'


def _guard(case):
    return lambda fn: common.guarded(fn, case)


def units(tier, seed):
    us = []
    if tier == 'quick':
        shapes = [(n, m) for n in range(1, 7) for m in range(1, 7) if n <= m] + [(6, 1), (6, 3), (5, 2)]
        ind = [(66, 2), (2, 66)]
        api = [(1, 1), (2, 3), (3, 2), (3, 3), (4, 3), (3, 4)]
        wide = []
        fam = [(66, 2), (2, 66)]
    else:
        shapes = [(n, m) for n in range(1, 9) for m in range(1, 9)] + [(10, 10), (12, 12), (12, 6), (6, 12)]
        ind = [(66, 2), (2, 66), (70, 3), (3, 70), (130, 2), (2, 130)]
        api = [(n, m) for n in range(1, 6) for m in range(1, 6)]
        wide = [(20, 3, 6), (3, 20, 6)]
        fam = [(66, 2), (2, 66), (70, 3), (3, 70), (130, 2), (2, 130)]
    for n, m in shapes:
        us.append({'name': f'kernel {n}x{m}', 'fn': 'unit_kernel', 'args': {'n': n, 'm': m}})
    for n, m in ind:
        for fname in ('prime', 'double', 'doubleprime'):
            for side in ('intension', 'extension'):
                us.append({'name': f'inductive {n}x{m}', 'fn': 'unit_inductive',
                           'args': {'n': n, 'm': m, 'f': fname, 'side': side}})
    for n, m in api:
        us.append({'name': f'api {n}x{m}', 'fn': 'unit_api', 'args': {'n': n, 'm': m}})
    for n, m, k in wide:
        us.append({'name': f'wide {n}x{m}', 'fn': 'unit_wide', 'args': {'n': n, 'm': m, 'k': k, 'seed': seed}})
    for n, m in fam:
        for side in ('intension', 'extension'):
            us.append({'name': f'query family {n}x{m}', 'fn': 'unit_family', 'args': {'n': n, 'm': m, 'side': side}})
    # the API through the per-table harness as well: other live contexts over the same labels, contexts reloaded /
    # rebuilt, call sequences, every argument form
    from . import _mk
    t = _mk.QUICK_TABLES if tier == 'quick' else _mk.THOROUGH_TABLES
    us += _mk.table_units(t, extra={'lattice': False}) + _mk.skeleton_units(tier, seed, extra={'lattice': False})
    # longest first
    us.sort(key=lambda u: -(min(u['args']['n'], 16) * min(u['args']['m'], 16)))
    return us


def unit_table(args, prefix=(), max_depth=None):
    from . import pertable
    return pertable.unit(PID, 'b01', args, prefix, max_depth)


def _case(model, cells, side, qval, n, m, what):
    objs, props = harness.names(n, m)
    table = harness.table_from_model(model, cells)
    labels = [(objs if side == 'intension' else props)[i] for i in range(max(n, m)) if (qval >> i) & 1]
    return {'kind': 'derivation', 'objects': list(objs), 'properties': list(props), 'table': table, 'side': side,
            'labels': labels, 'what': what, 'probe': max(n, m) > 8}


def _val(model, v):
    return model.eval(v, model_completion=True).as_long()


def unit_kernel(args, prefix=(), max_depth=None):
    n, m = args['n'], args['m']
    harness.set_width_for(n, m)
    harness.set_kernel_mode('real')
    harness.load_concepts()
    from concepts import matrices
    cells = harness.cell_vars(n, m)
    q = z3.BitVec('q', core.W)
    r = z3.BitVec('r', core.W)
    enc = {}

    @_guard(lambda mdl, what: _case(mdl, cells, 'intension', _val(mdl, q), n, m, what))
    def body():
        cx = core.ctx()
        objs, props = harness.names(n, m)
        intents, extents = matrices.Relation('Properties', 'Objects', props, objs, harness.sym_rows(cells))
        sp = harness.Spec(cells)
        cx.assume(sp.is_objset(q), sp.is_propset(r))
        out = {'cex': [], 'queries': 0}
        t0 = time.time()
        for side, vec, var, d1, d2 in (('intension', extents, q, sp.intent, sp.closure_o),
                                       ('extension', intents, r, sp.extent, sp.closure_p)):
            ks = harness.real_kernels(vec)
            enc.update(harness.encoded(*ks.values()))
            x = vec.BitSet.fromint(core.SymInt(var))
            gp = minterp.call(ks['prime'], x)
            gd = minterp.call(ks['double'], x)
            gdp = minterp.call(ks['doubleprime'], x)
            props_ = {'prime': _bv(gp) == d1(var), 'double': _bv(gd) == d2(var),
                      'doubleprime': z3.And(_bv(gdp[0]) == d2(var), _bv(gdp[1]) == d1(var))}
            # result classes as in the real library (plain closures return bitset instances of the right domain)
            if type(gp) is not (intents.BitSet if side == 'intension' else extents.BitSet) \
                    or type(gd) is not vec.BitSet:
                out['cex'].append({'kind': 'derivation', 'what': f'{side}: result class', 'labels': None,
                                   'objects': list(objs), 'properties': list(props),
                                   'table': [[False] * m for _ in range(n)], 'side': side})
            for name, p in props_.items():
                out['queries'] += 1
                mdl = cx.check_fresh(z3.Not(p), want_model=True)
                if mdl is not None:
                    out['cex'].append(_case(mdl, cells, side, _val(mdl, var), n, m, f'kernel {name} != spec'))
        for msg, mdl in cx.failed_obligations(want_model=True):
            out['cex'].append(_case(mdl, cells, 'intension', _val(mdl, q), n, m, f'obligation: {msg}'))
            out['cex'].append(_case(mdl, cells, 'extension', _val(mdl, r), n, m, f'obligation: {msg}'))
        mdl = cx.check_fresh(want_model=True)
        if mdl is None:
            out['inconclusive'] = ['vacuous: path condition unsatisfiable']
        elif not out['cex']:
            out['witness'] = _case(mdl, cells, 'intension', _val(mdl, q), n, m, None)
        out['sample'] = {'unit': f'kernel {n}x{m}', 'queries': ['prime==A\'', 'double==A\'\'', 'doubleprime==(A\'\',A\')'],
                         'both_orientations': True, 'verdict': 'unsat' if not out['cex'] else 'sat',
                         'seconds': round(time.time() - t0, 2)}
        return out
    res = common.run_paths(body, prefix, max_depth)
    res['encoded'] = enc
    res['bounds'] = f'all {n}x{m} tables x all argument sets; unrolled to {max(n, m)} iterations with unwinding assertion'
    res['stubs'] = ['bitsets package -> symbolic model (validated by checks.selftest)']
    return res


# -- L2: inductive step ------------------------------------------------------------------------------------

def _fold(b0, seq, L, full, i):
    W = core.W
    r = z3.BitVecVal(full, W)
    for k in range(L):
        r = r & z3.If(z3.And(z3.BitVecVal(k, W) < i, z3.Extract(k, k, b0) == 1),
                      _bv(tuple.__getitem__(seq, k).e), z3.BitVecVal(full, W))
    return r


def _make_inv(acc, src, seqname, record):
    def inv(cur, entry, fr):
        seq = fr.lookup(seqname)
        L = len(seq)
        full = seq.BitSet.supremum.e
        b0 = _bv(entry[src])
        i = _bv(cur['i'])
        record.setdefault((fr.fn.__code__.co_name, acc), (b0, L))
        return z3.And(i >= 0, i <= L, _bv(cur[src]) == (b0 >> i), b0 >= 0,
                      z3.ULT(b0, z3.BitVecVal(1 << L, core.W)),
                      _bv(cur[acc]) == (_bv(entry[acc]) & _fold(b0, seq, L, full, i)))
    return inv


def unit_inductive(args, prefix=(), max_depth=None):
    n, m, fname = args['n'], args['m'], args['f']
    harness.set_width_for(n, m)
    harness.set_kernel_mode('real')
    harness.load_concepts()
    from concepts import matrices
    cells = harness.cell_vars(n, m)
    q = z3.BitVec('q', core.W)
    record = {}
    invs = {('prime', 0): _make_inv('prime', 'bitset', 'other', record),
            ('doubleprime', 0): _make_inv('prime', 'bitset', 'other', record),
            ('doubleprime', 1): _make_inv('double', 'bitset', 'self', record),
            ('double', 0): _make_inv('prime', 'bitset', 'other', record),
            ('double', 1): _make_inv('double', 'prime', 'self', record)}
    enc = {}

    @_guard(lambda mdl, what: _case(mdl, cells, args['side'], _val(mdl, q), n, m, what))
    def body():
        cx = core.ctx()
        objs, props = harness.names(n, m)
        intents, extents = matrices.Relation('Properties', 'Objects', props, objs, harness.sym_rows(cells))
        sp = harness.Spec(cells)
        out = {'cex': [], 'queries': 0}
        for side, vec, isset, d1, d2 in (('intension', extents, sp.is_objset, sp.intent, sp.closure_o),
                                         ('extension', intents, sp.is_propset, sp.extent, sp.closure_p)):
            if side != args['side']:
                continue
            t0 = time.time()
            cx2 = cx
            f = harness.real_kernels(vec)[fname]
            enc.update(harness.encoded(f))
            x = vec.BitSet.fromint(core.SymInt(q))
            pre = [isset(q), q >= 0]
            cx2.assume(*pre)
            got = minterp.call(f, x)
            if fname == 'prime':
                prop = _bv(got) == d1(q)
            elif fname == 'double':
                prop = _bv(got) == d2(q)
            else:
                prop = z3.And(_bv(got[0]) == d2(q), _bv(got[1]) == d1(q))
            out['queries'] += 1
            mdl = cx2.check_fresh(z3.Not(prop), want_model=True)
            if mdl is not None:
                out['cex'].append(_case(mdl, cells, side, _val(mdl, q), n, m, f'{fname}: post-loop result != spec'))
            for msg, mdl in cx2.failed_obligations(want_model=True):
                # reconstruct an input that reaches the failing loop head in the real code
                hv = [d for d in mdl.decls() if d.name().startswith('havoc_i')]
                qv = _val(mdl, q)
                cands = {qv}
                for d in hv:
                    i = mdl[d].as_signed_long()
                    for b0 in {qv} | {mdl[dd].as_long() for dd in mdl.decls() if dd.name().startswith('havoc_prime')}:
                        if 0 < i <= max(n, m):
                            cands.add(((b0 >> i) << i) | (1 << (i - 1)))
                lim = (1 << (n if side == 'intension' else m)) - 1
                for b in sorted(cands):
                    out['cex'].append(_case(mdl, cells, side, b & lim, n, m, f'{fname}: {msg}'))
            if not cx2.check_fresh():
                out['inconclusive'] = ['vacuous: assumptions unsatisfiable']
            out['sample'] = {'unit': f'inductive {fname} {n}x{m} ({side})', 'invariant':
                             '0<=i<=L and bitset==b0>>i and acc==acc0 & AND{other[k] : k<i, b0[k]}',
                             'obligations': len(cx2.errors), 'seconds': round(time.time() - t0, 2)}
        return out
    saved = dict(minterp.LOOP_INVARIANTS)
    minterp.LOOP_INVARIANTS.update(invs)
    try:
        res = common.run_paths(body, prefix, max_depth)
    finally:
        minterp.LOOP_INVARIANTS.clear()
        minterp.LOOP_INVARIANTS.update(saved)
    res['encoded'] = enc
    res['bounds'] = (f'{fname}: all {n}x{m} tables x all argument sets, one inductive step of the real loop body '
                     f'from an arbitrary invariant state (bit-vector width {core.W})')
    res['assumptions'] = ['loop invariant (checked on entry and preserved by the real body) summarises the while loops']
    return res


# -- L3: API level -----------------------------------------------------------------------------------------

def unit_api(args, prefix=(), max_depth=None):
    n, m = args['n'], args['m']
    harness.set_width_for(n, m)
    harness.set_kernel_mode('merged')
    concepts = harness.load_concepts()
    cells = harness.cell_vars(n, m)
    from .pertable import awkward_labels
    objs, props = awkward_labels(n, m)      # prefixes of each other, spaces, numeric-looking, one-character labels
    total = {'paths': 0, 'cex': [], 'queries': 0, 'cuts': [], 'samples': [], 'inconclusive': []}

    def mk():
        return concepts.Context(objs, props, harness.sym_rows(cells))

    def case(mdl, side, labels, what):
        return {'kind': 'derivation', 'objects': list(objs), 'properties': list(props),
                'table': harness.table_from_model(mdl, cells), 'side': side, 'labels': list(labels), 'what': what}

    @_guard(lambda mdl, what: case(mdl, 'intension', [], what))
    def body_raw():
        cx = core.ctx()
        ctx = mk()
        sp = harness.Spec(cells)
        out = {'cex': [], 'queries': 0}
        conj = []
        if tuple(ctx.objects) != objs or tuple(ctx.properties) != props:
            conj.append((z3.BoolVal(False), 'intension', [], 'objects/properties not reproduced'))
        b = ctx.bools
        ok = len(b) == n and all(len(row) == m for row in b)
        conj.append((z3.And(*[core.tob(b[i][j]) == cells[i][j] for i in range(n) for j in range(m)])
                     if ok else z3.BoolVal(False), 'intension', [], 'bools do not reproduce the cells'))
        for side, labels, d, meth in (('intension', objs, sp.intent, ctx.intension),
                                      ('extension', props, sp.extent, ctx.extension)):
            for k in range(len(labels) + 1):
                for sub in itertools.combinations(range(len(labels)), k):
                    want = d(sum(1 << i for i in sub))
                    names_ = [labels[i] for i in sub]
                    forms = [names_, list(reversed(names_)), names_ + names_[:1], tuple(names_), iter(names_),
                             set(names_), dict.fromkeys(names_).keys()]
                    if names_ and all(len(x) == 1 for x in names_):
                        forms.append(''.join(names_))     # a str is an iterable of one-character labels
                        forms.append(''.join(reversed(names_)))
                    for form in forms:
                        got = meth(form, raw=True)
                        conj.append((_bv(got) == want, side, names_, f'{side}(raw=True) != derivation'))
        out['queries'] += len(conj)
        allok = z3.And(*[c for c, *_ in conj])
        if cx.check_fresh(z3.Not(allok)):
            for c, side, labels, what in conj:
                mdl = cx.check_fresh(z3.Not(c), want_model=True)
                if mdl is not None:
                    out['cex'].append(case(mdl, side, labels, what))
                    break
        for msg, mdl in cx.failed_obligations(want_model=True):
            out['cex'].append(case(mdl, 'intension', [], f'obligation: {msg}'))
        out['sample'] = {'unit': f'api raw {n}x{m}', 'label_subsets': (1 << n) + (1 << m), 'forms_per_subset': 5,
                         'verdict': 'unsat' if not out['cex'] else 'sat'}
        return out
    r = common.run_paths(body_raw)
    for k in ('paths', 'queries'):
        total[k] += r[k]
    for k in ('cex', 'samples', 'inconclusive'):
        total[k] += r[k]

    # label form: forks over the symbolic result; per path the tuple is concrete and must equal the derivation
    for side, labels, other in (('intension', objs, props), ('extension', props, objs)):
        for k in range(len(labels) + 1):
            for sub in itertools.combinations(range(len(labels)), k):
                names_ = [labels[i] for i in sub]

                @_guard(lambda mdl, what: case(mdl, side, names_, what))
                def body_lab():
                    cx = core.ctx()
                    ctx = mk()
                    sp = harness.Spec(cells)
                    d = sp.intent if side == 'intension' else sp.extent
                    got = (ctx.intension if side == 'intension' else ctx.extension)(names_)
                    out = {'cex': [], 'queries': 1}
                    good = isinstance(got, tuple) and all(x in other for x in got) \
                        and [other.index(x) for x in got] == sorted(set(other.index(x) for x in got))
                    gm = sum(1 << other.index(x) for x in got) if good else 0
                    mdl = cx.check_fresh(z3.Not(d(sum(1 << i for i in sub)) == gm) if good else z3.BoolVal(True),
                                         want_model=True)
                    if mdl is not None:
                        out['cex'].append(case(mdl, side, names_, f'{side} label form {got!r} != derivation'))
                    return out
                r = common.run_paths(body_lab, max_samples=0)
                total['paths'] += r['paths']
                total['queries'] += r['queries']
                total['cex'] += r['cex']
                total['inconclusive'] += r['inconclusive']
    # sequences of calls on ONE context: label-form intension then extension over the same index pattern, and again
    k = min(n, m)
    for size in range(k + 1):
        for sub in itertools.combinations(range(k), size):
            on, pn = [objs[i] for i in sub], [props[i] for i in sub]

            @_guard(lambda mdl, what: case(mdl, 'extension', pn, what))
            def body_seq():
                cx = core.ctx()
                ctx = mk()
                sp = harness.Spec(cells)
                out = {'cex': [], 'queries': 0}
                msk = sum(1 << i for i in sub)
                for step, (side, labels, other, d) in enumerate((('intension', on, props, sp.intent), ('extension', pn, objs, sp.extent),
                                                                 ('intension', on, props, sp.intent), ('extension', pn, objs, sp.extent))):
                    got = (ctx.intension if side == 'intension' else ctx.extension)(list(labels))
                    good = isinstance(got, tuple) and all(x in other for x in got)
                    gm = sum(1 << other.index(x) for x in got) if good else 0
                    out['queries'] += 1
                    mdl = cx.check_fresh(z3.Not(d(msk) == gm) if good else z3.BoolVal(True), want_model=True)
                    if mdl is not None:
                        out['cex'].append(case(mdl, side, labels, f'call {step + 1} of a sequence on one context: {side}({labels}) '
                                                                     f'= {got!r} != derivation'))
                        break
                return out
            r = common.run_paths(body_seq, max_samples=0)
            total['paths'] += r['paths']
            total['queries'] += r['queries']
            total['cex'] += r['cex'][:2]
            total['inconclusive'] += r['inconclusive']
    total['encoded'] = harness.encoded(concepts.Context.intension, concepts.Context.extension, concepts.Context.__init__,
                                       concepts.Context.bools, concepts.matrices.Relation.__new__,
                                       concepts.matrices.Vectors._pair_with)
    total['bounds'] = f'all {n}x{m} tables x every label subset x 5 argument forms (raw) + label form per subset'
    return total


# -- wide tables: concrete query family x fully symbolic table ----------------------------------------------------

def query_family(L):
    """argument sets around machine-word boundaries: singletons, pairs at distances 1, 62..66, prefixes, suffixes,
    every other member, all"""
    fam = [0, (1 << L) - 1]
    fam += [1 << i for i in range(L)]
    for d in (1, 2, 31, 32, 33, 62, 63, 64, 65, 66, 127, 128, 129):
        fam += [(1 << i) | (1 << (i + d)) for i in range(L - d)]
    fam += [(1 << k) - 1 for k in (2, 31, 32, 33, 63, 64, 65, 127, 128, 129) if k < L]
    fam += [((1 << L) - 1) ^ ((1 << k) - 1) for k in (1, 32, 63, 64, 65, 128) if k < L]
    fam += [int('01' * L, 2) & ((1 << L) - 1), int('10' * L, 2) & ((1 << L) - 1), int('1' + '0' * 63, 2) * 0 + sum(1 << i for i in range(0, L, 63)),
            sum(1 << i for i in range(0, L, 64)), sum(1 << i for i in range(63, L, 64))]
    out, seen = [], set()
    for q in fam:
        if q not in seen and q < (1 << L):
            seen.add(q)
            out.append(q)
    return out


def unit_family(args, prefix=(), max_depth=None):
    """The real ``prime`` closure runs natively (concrete control flow, whatever its loop structure) on a family of
    concrete argument sets (double/doubleprime iterate over a symbolic intermediate result and are left to the
    inductive step) while the table stays fully symbolic; every result term is compared with the derivation."""
    n, m, side = args['n'], args['m'], args['side']
    harness.set_width_for(n, m)
    harness.set_kernel_mode('real')
    harness.load_concepts()
    from concepts import matrices
    cells = harness.cell_vars(n, m)
    enc = {}

    def case_(mdl, what, q=0):
        c = _case(mdl, cells, side, q, n, m, what)
        return c
    state = {'q': 0}

    @_guard(lambda mdl, what: case_(mdl, what, state['q']))
    def body():
        cx = core.ctx()
        objs, props = harness.names(n, m)
        intents, extents = matrices.Relation('Properties', 'Objects', props, objs, harness.sym_rows(cells))
        sp = harness.Spec(cells)
        vec, d1, d2, L = (extents, sp.intent, sp.closure_o, n) if side == 'intension' else (intents, sp.extent, sp.closure_p, m)
        ks = harness.real_kernels(vec)
        enc.update(harness.encoded(*ks.values()))
        out = {'cex': [], 'queries': 0}
        named = []
        fam = query_family(L)
        for q in fam:
            state['q'] = q
            x = vec.BitSet.fromint(q)
            gp = ks['prime'](x)
            named.append((_bv(gp) == d1(q), q, 'prime'))
        out['queries'] = len(named)
        if cx.check_fresh(z3.Not(z3.And(*[c for c, _, _ in named]))):
            found = 0
            for c, q, what in named:
                mdl = cx.check_fresh(z3.Not(c), want_model=True)
                if mdl is not None:
                    out['cex'].append(case_(mdl, f'{what} of a concrete query on a symbolic {n}x{m} table != derivation', q))
                    found += 1
                    if found >= 3:
                        break
        for msg, mdl in cx.failed_obligations(want_model=True):
            out['cex'].append(case_(mdl, f'obligation: {msg}', state['q']))
        mdl = cx.check_fresh(want_model=True)
        if mdl is not None and not out['cex']:
            out['witness'] = case_(mdl, None, fam[len(fam) // 2])
        out['sample'] = {'unit': f'query family {n}x{m} ({side})', 'queries_in_family': len(fam),
                         'table': 'fully symbolic', 'examples': [hex(q) for q in fam[2:6]]}
        return out
    res = common.run_paths(body, prefix, max_depth)
    res['encoded'] = enc
    res['bounds'] = (f'{side}: all {n}x{m} tables x a family of {len(query_family(n if side == "intension" else m))} '
                     f'concrete argument sets around word boundaries (enumerated, not solved)')
    return res


# -- wide skeletons ----------------------------------------------------------------------------------------

def skeleton(n, m, kind, rnd):
    if kind == 'chain':
        return [[j * n <= i * m for j in range(m)] for i in range(n)]
    if kind == 'nominal':
        return [[i % m == j for j in range(m)] for i in range(n)]
    if kind == 'dup':
        base = [[rnd.random() < 0.5 for j in range(m)] for _ in range(3)]
        return [list(base[i % 3]) for i in range(n)]
    return [[rnd.random() < 0.6 for j in range(m)] for i in range(n)]


def unit_wide(args, prefix=(), max_depth=None):
    n, m, k = args['n'], args['m'], args['k']
    rnd = random.Random(args['seed'] * 7919 + n * 131 + m)
    harness.set_width_for(n, m)
    harness.set_kernel_mode('real')
    harness.load_concepts()
    from concepts import matrices
    total = {'paths': 0, 'cex': [], 'queries': 0, 'cuts': [], 'samples': [], 'inconclusive': []}
    for kind in ('chain', 'nominal', 'dup', 'random'):
        base = skeleton(n, m, kind, rnd)
        pos = rnd.sample([(i, j) for i in range(n) for j in range(m)], k)
        cells = [[z3.Bool(f'c_{i}_{j}') if (i, j) in pos else base[i][j] for j in range(m)] for i in range(n)]
        q = z3.BitVec('q', core.W)
        r = z3.BitVec('r', core.W)

        @_guard(lambda mdl, what: _case(mdl, cells, 'intension', _val(mdl, q), n, m, what))
        def body():
            cx = core.ctx()
            objs, props = harness.names(n, m)
            intents, extents = matrices.Relation('Properties', 'Objects', props, objs, harness.sym_rows(cells))
            sp = harness.Spec(cells)
            cx.assume(sp.is_objset(q), sp.is_propset(r))
            out = {'cex': [], 'queries': 0}
            for side, vec, var, d1, d2 in (('intension', extents, q, sp.intent, sp.closure_o),
                                           ('extension', intents, r, sp.extent, sp.closure_p)):
                ks = harness.real_kernels(vec)
                x = vec.BitSet.fromint(core.SymInt(var))
                gdp = minterp.call(ks['doubleprime'], x)
                gp = minterp.call(ks['prime'], x)
                p = z3.And(_bv(gdp[0]) == d2(var), _bv(gdp[1]) == d1(var), _bv(gp) == d1(var))
                out['queries'] += 1
                mdl = cx.check_fresh(z3.Not(p), want_model=True)
                if mdl is not None:
                    out['cex'].append(_case(mdl, cells, side, _val(mdl, var), n, m, f'wide kernel != spec ({kind})'))
            for msg, mdl in cx.failed_obligations(want_model=True):
                out['cex'].append(_case(mdl, cells, 'intension', _val(mdl, q), n, m, f'obligation: {msg}'))
            out['sample'] = {'unit': f'wide {kind} {n}x{m}', 'symbolic_cells': k, 'symbolic_argument_bits': n + m}
            return out
        r_ = common.run_paths(body)
        for key in ('paths', 'queries'):
            total[key] += r_[key]
        for key in ('cex', 'samples', 'inconclusive'):
            total[key] += r_[key]
    total['bounds'] = f'{n}x{m} structured skeletons (chain, nominal, duplicated rows, random), {k} symbolic cells, ' \
                      f'all argument sets, full unrolling'
    return total


def evidence_extra(tier, seed, total):
    return {'bounds': {u: v.get('bounds') for u, v in total.get('units', {}).items()},
            'outside_the_claim': 'table shapes and widths other than those listed; label types other than str; '
                                 'the label-form check forks over result bits (solver-driven enumeration)'}
