"""Definition engine (C13, C14): one inductive step of every editing operation from an arbitrary valid state.

Pre-state: any ordered subset of the object universe and of the property universe (enumerated) with one symbolic
Boolean per cell (a SymSet model stands for ``Definition._pairs``; the state is constructed directly through the real
``Definition._fromargs``).  The real method body is run by the merge-interpreter; the post-state (both name orders,
every cell as a formula over the old cells, return value / exception, "no residue" invariant, rectangular bools) is
compared by the solver with a plain list-and-set model written here from the documentation."""
import itertools

import z3

from symx import core, harness, minterp
from symx.symset import SymSet, _z
from . import common


def ordered_subsets(universe):
    out = []
    for k in range(len(universe) + 1):
        out.extend(itertools.permutations(universe, k))
    return [list(x) for x in out]


class Engine:
    def __init__(self):
        self.concepts = harness.load_concepts()
        from concepts import definitions, tools
        self.definitions, self.tools = definitions, tools
        self.D = definitions.Definition
        self.saved = (minterp.SET_FACTORY, set(minterp.MERGE_FUNCS), dict(minterp.BUILTIN_MODELS))
        minterp.SET_FACTORY = SymSet.from_guarded
        for cls in (definitions.MutableMixin, definitions.TransformableMixin, definitions.Triple, definitions.Definition):
            minterp.register_class(cls)
        minterp.register(definitions.conflicting_pairs)
        minterp.register(definitions.ensure_compatible)
        minterp.BUILTIN_MODELS[list] = lambda x: x

    def close(self):
        minterp.SET_FACTORY = self.saved[0]
        minterp.MERGE_FUNCS.clear()
        minterp.MERGE_FUNCS.update(self.saved[1])
        minterp.BUILTIN_MODELS.clear()
        minterp.BUILTIN_MODELS.update(self.saved[2])

    def mk(self, objs, props, tag):
        """arbitrary valid state: the given orders, one symbolic Boolean per cell"""
        m = {(o, p): z3.Bool(f'{tag}_{o}{p}') for o in objs for p in props}
        d = self.D._fromargs(self.tools.Unique(objs), self.tools.Unique(props), SymSet(m))
        return d, m

    @staticmethod
    def cells(d):
        return {(o, p): _z(d._pairs.m.get((o, p), False)) for o in d._objects for p in d._properties}

    @staticmethod
    def residue_free(d):
        bad = [_z(v) for (o, p), v in d._pairs.m.items() if o not in d._objects._seen or p not in d._properties._seen]
        return z3.Not(z3.Or(*bad)) if bad else z3.BoolVal(True)

    @staticmethod
    def wellformed(d):
        """representation invariant of the ordered name collections"""
        for u in (d._objects, d._properties):
            if len(u._items) != len(set(u._items)) or set(u._items) != set(u._seen):
                return False
        return True


from . import defmodel
from .defmodel import *  # noqa: F401,F403,E402  (m_* model functions)


class Z3Alg:
    T, F = z3.BoolVal(True), z3.BoolVal(False)
    Or = staticmethod(lambda *xs: z3.Or(*xs))
    And = staticmethod(lambda *xs: z3.And(*xs))
    Ne = staticmethod(lambda a, b: a != b)
    Not = staticmethod(z3.Not)


defmodel.ALG = Z3Alg
T, F = Z3Alg.T, Z3Alg.F


def rep_names(state, universe, fresh):
    """every name of the state, the first universe name outside it, and the fresh names"""
    out = list(state)
    rest = [x for x in universe if x not in state]
    return out + rest[:1] + list(fresh)


def short_lists(names):
    out = [[]] + [[x] for x in names] + [[x, y] for x in names for y in names]
    return out


def check_post(eng, cx, d, pre, exp, raised, rv, what, extra=()):
    """compare the post-state of the real object with the model; returns list of failure descriptions"""
    O, P, C = pre
    On, Pn, Cn, rv_exp, reject = exp
    rej = z3.BoolVal(reject) if isinstance(reject, bool) else reject
    if not eng.wellformed(d):
        return [(None, f'{what}: ordered name collection corrupted (_items/_seen disagree)')]
    named = []
    if raised is not None:
        named.append((rej, f'{what}: raised {raised} but the model accepts the call'))
        On, Pn, Cn = O, P, C     # must be unchanged
    else:
        named.append((z3.Not(rej), f'{what}: no exception but the model rejects the call'))
    if list(d._objects) != list(On) or list(d._properties) != list(Pn):
        named.append((F, f'{what}: names {list(d._objects)} {list(d._properties)}, expected {On} {Pn}'
                      + (' (after a rejected call)' if raised else '')))
    else:
        got = eng.cells(d)
        named.append((z3.And(*[got[k] == Cn[k] for k in Cn]) if Cn else T,
                      f'{what}: cells differ from the model' + (' (after a rejected call)' if raised else '')))
    named.append((eng.residue_free(d), f'{what}: residue of removed/renamed names left in the cell set'))
    named.extend(extra)
    fails = []
    for cond, msg in named:
        if z3.is_false(z3.simplify(cond)):
            fails.append((cx.check_fresh(want_model=True), msg))
            continue
        mdl = cx.check_fresh(z3.Not(cond), want_model=True)
        if mdl is not None:
            fails.append((mdl, msg))
    return fails


def model_cells(mdl, m):
    return {f'{o}|{p}': bool(z3.is_true(mdl.eval(v, model_completion=True))) for (o, p), v in m.items()} if mdl else {}
