"""C04 -- all three concept generators agree on the set of concepts.

Generator level: real fcbo.fast_generate_from / fcbo_dual (and the get_concepts / iterconcepts wrappers) on a fully
symbolic table: every yielded pair is a formal concept, no repeats, and no formal concept is missing (fresh symbolic
witness).  Lindig is decided against the same specification by C03, so agreement follows inside the common bounds;
the per-table level compares all five producers directly."""
from . import gen, pertable, _mk

PID = 'C04'


def units(tier, seed):
    if tier == 'quick':
        # tall shapes (more than twice as many objects as properties, and the mirror image) are part of the quick tier
        f = [(n, m) for n in (1, 2, 3, 4, 5, 6) for m in (1, 2, 3)] + [(3, 4), (2, 4), (9, 3), (8, 2), (7, 3)]
        t = _mk.QUICK_TABLES
    else:
        f = [(n, m) for n in range(1, 9) for m in (1, 2, 3)] + [(n, 4) for n in range(1, 6)] + [(2, 5), (3, 5)]
        t = _mk.THOROUGH_TABLES
    shapes = set(f) | {(m, n) for n, m in f}
    us = gen.kernel_units(shapes)
    for n, m in f:
        us.append({'name': f'fcbo {n}x{m}', 'fn': 'unit_fcbo', 'args': {'n': n, 'm': m, 'which': 'fcbo'},
                   'split': (9 if n * m >= 15 else 6) if m >= 3 else 0})
        us.append({'name': f'fcbo_dual {m}x{n}', 'fn': 'unit_fcbo', 'args': {'n': m, 'm': n, 'which': 'dual'},
                   'split': (9 if n * m >= 15 else 6) if m >= 3 else 0})
    us += _mk.table_units(t)
    us += _mk.inductive_units(tier) + _mk.skeleton_kernel_units(tier, seed) + _mk.skeleton_units(tier, seed)
    return _mk.order(us)


unit_kernel = _mk.kernel_unit_for(PID)
unit_inductive = _mk.inductive_unit_for(PID)


def unit_fcbo(args, prefix=(), max_depth=None):
    return gen.fcbo_unit(PID, args, prefix, max_depth)


def unit_table(args, prefix=(), max_depth=None):
    return pertable.unit(PID, 'b04', args, prefix, max_depth)
