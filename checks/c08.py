"""C08 -- order and logical-relation predicates on concepts match their extents.

The eight real predicate methods of lattice_members.Concept (and the four comparison operators bound to them) are
merge-interpreted on two ARBITRARY symbolic bitsets (a superset of "two concepts of one lattice") and compared with
the set-theoretic definitions (truthiness); the intent-side reading of <= is decided on symbolic tables with the
real merged kernels producing the intents."""
import time
import types

import z3

from symx import core, harness, minterp, bitsets_model
from symx.core import _bv, tob
from . import common, pertable, _mk

PID = 'C08'
NAMES = ['implies', 'subsumes', 'properly_implies', 'properly_subsumes', '__le__', '__ge__', '__lt__', '__gt__',
         'incompatible_with', 'complement_of', 'subcontrary_with', 'orthogonal_to']


def units(tier, seed):
    widths = [1, 2, 3, 6, 64, 130] if tier == 'quick' else [1, 2, 3, 4, 5, 6, 8, 16, 33, 64, 65, 130, 200]
    shapes = [(3, 3), (4, 4), (5, 5)] if tier == 'quick' else [(n, m) for n in range(1, 7) for m in range(1, 7)]
    us = [{'name': f'predicates width {n}', 'fn': 'unit_pred', 'args': {'n': n, 'm': 1}} for n in widths]
    us += [{'name': f'intent side {n}x{m}', 'fn': 'unit_intent', 'args': {'n': n, 'm': m}} for n, m in shapes]
    us += [{'name': f'predicates on concepts {n}x{m}', 'fn': 'unit_pred_table', 'args': {'n': n, 'm': m}}
           for n, m in shapes + [(2, 2), (6, 3), (3, 6)]]
    us += _mk.lattice_level_units(tier, seed)
    return _mk.order(us)


unit_kernel = _mk.kernel_unit_for(PID)
unit_inductive = _mk.inductive_unit_for(PID)


def unit_table(args, prefix=(), max_depth=None):
    return pertable.unit(PID, 'b08', args, prefix, max_depth)


def unit_pred_table(args, prefix=(), max_depth=None):
    """the predicates on two symbolic CONCEPTS of one symbolic table: the stub lattice carries the true infimum and
    supremum extents of that table"""
    n, m = args['n'], args['m']
    harness.set_width_for(n, m)
    harness.set_kernel_mode('contract')
    harness.load_concepts()
    from concepts import matrices, lattice_members as lm
    cells = harness.cell_vars(n, m)
    x, y = z3.BitVec('x', core.W), z3.BitVec('y', core.W)
    objs, props = harness.names(n, m)

    def case(mdl, what):
        return {'kind': 'table:C08', 'objects': list(objs), 'properties': list(props),
                'table': harness.table_from_model(mdl, cells), 'what': what}

    def body():
        cx = core.ctx()
        intents, extents = matrices.Relation('Properties', 'Objects', props, objs, harness.sym_rows(cells))
        sp = harness.Spec(cells)
        O = extents.BitSet
        cx.assume(sp.is_objset(x), sp.is_objset(y), sp.closed_o(x), sp.closed_o(y))
        lat = types.SimpleNamespace()
        inf = lm.Concept(lat, O.fromint(core.SymInt(sp.closure_o(0))), intents.BitSet.fromint(core.SymInt(sp.intent(sp.closure_o(0)))), (), ())
        sup = lm.Concept(lat, O.supremum, intents.BitSet.fromint(core.SymInt(sp.intent(sp.full_o))), (), ())
        lat.infimum, lat.supremum = inf, sup
        a = lm.Concept(lat, O.fromint(core.SymInt(x)), intents.BitSet.fromint(core.SymInt(sp.intent(x))), (), ())
        b = lm.Concept(lat, O.fromint(core.SymInt(y)), intents.BitSet.fromint(core.SymInt(sp.intent(y))), (), ())
        out = {'cex': [], 'queries': 0}
        spc = spec(x, y, sp.full_o)
        for name in NAMES:
            got = minterp.call(getattr(lm.Concept, name), a, b)
            out['queries'] += 1
            mdl = cx.check_fresh(tob(got) != spc[name], want_model=True)
            if mdl is not None:
                out['cex'].append(case(mdl, f'{name} on two concepts of one lattice'))
        for msg, mdl in cx.failed_obligations(want_model=True):
            out['cex'].append(case(mdl, f'obligation {msg}'))
        mdl = cx.check_fresh(want_model=True)
        if mdl is None:
            out['inconclusive'] = ['vacuous']
        elif not out['cex']:
            out['witness'] = case(mdl, None)
        out['sample'] = {'unit': f'predicates on concepts {n}x{m}', 'inputs': 'symbolic table, two symbolic closed extents, '
                         'stub lattice with the true infimum/supremum', 'queries': NAMES}
        return out
    res = common.run_paths(common.guarded(body, case), prefix, max_depth)
    res['bounds'] = f'all {n}x{m} tables x all pairs of concepts'
    res['stubs'] = ['lattice -> namespace carrying the infimum and supremum concepts of the table']
    return res


def spec(x, y, full):
    sub = lambda a, b: a & b == a
    return {
        'implies': sub(x, y), 'subsumes': sub(y, x),
        'properly_implies': z3.And(sub(x, y), x != y), 'properly_subsumes': z3.And(sub(y, x), x != y),
        '__le__': sub(x, y), '__ge__': sub(y, x),
        '__lt__': z3.And(sub(x, y), x != y), '__gt__': z3.And(sub(y, x), x != y),
        'incompatible_with': x & y == 0,
        'complement_of': z3.And(x & y == 0, x | y == full),
        'subcontrary_with': z3.And(x & y != 0, x | y == full),
        'orthogonal_to': z3.And(x & y != 0, z3.Not(sub(x, y)), z3.Not(sub(y, x)), x | y != full),
    }


def unit_pred(args, prefix=(), max_depth=None):
    n = args['n']
    core.set_width(max(n + 2, 10))
    harness.load_concepts()
    from concepts import lattice_members as lm
    O = bitsets_model.bitset('Objects', tuple(f'o{i}' for i in range(n)), bitsets_model.MemberBits)
    x, y = z3.BitVec('x', core.W), z3.BitVec('y', core.W)
    enc = {}

    @common.guarded
    def body():
        cx = core.ctx()
        full = (1 << n) - 1
        cx.assume(z3.ULE(x, full), z3.ULE(y, full))
        lat = types.SimpleNamespace(supremum=types.SimpleNamespace(_extent=O.supremum),
                                    infimum=types.SimpleNamespace(_extent=O.infimum))
        a = lm.Concept(lat, O.fromint(core.SymInt(x)), None, (), ())
        b = lm.Concept(lat, O.fromint(core.SymInt(y)), None, (), ())
        out = {'cex': [], 'queries': 0}
        sp = spec(x, y, full)
        for name in NAMES:
            f = getattr(lm.Concept, name)
            enc.update(harness.encoded(f))
            got = minterp.call(f, a, b)
            out['queries'] += 1
            mdl = cx.check_fresh(tob(got) != sp[name], want_model=True)
            if mdl is not None:
                out['cex'].append({'kind': 'predicates', 'n': n, 'x': mdl.eval(x, model_completion=True).as_long(),
                                   'y': mdl.eval(y, model_completion=True).as_long(), 'what': name})
        for msg, mdl in cx.failed_obligations(want_model=True):
            out['cex'].append({'kind': 'predicates', 'n': n, 'x': mdl.eval(x, model_completion=True).as_long(),
                               'y': mdl.eval(y, model_completion=True).as_long(), 'what': f'obligation {msg}'})
        mdl = cx.check_fresh(want_model=True)
        if mdl is None:
            out['inconclusive'] = ['vacuous']
        elif not out['cex']:
            out['witness'] = {'kind': 'predicates', 'n': n, 'x': mdl.eval(x, model_completion=True).as_long(),
                              'y': mdl.eval(y, model_completion=True).as_long()}
        out['sample'] = {'unit': f'predicates width {n}', 'queries': NAMES, 'inputs': 'two arbitrary bitsets',
                         'verdict': 'unsat' if not out['cex'] else 'sat'}
        return out
    res = common.run_paths(body, prefix, max_depth)
    res['encoded'] = enc
    res['bounds'] = f'all pairs of subsets of {n} objects'
    res['stubs'] = ['lattice.supremum/infimum._extent -> the full / empty object set (stub lattice of the powerset)']
    return res


def unit_intent(args, prefix=(), max_depth=None):
    n, m = args['n'], args['m']
    harness.set_width_for(n, m)
    harness.set_kernel_mode('real')
    harness.load_concepts()
    from concepts import matrices, lattice_members as lm
    cells = harness.cell_vars(n, m)
    x, y = z3.BitVec('x', core.W), z3.BitVec('y', core.W)

    @common.guarded
    def body():
        cx = core.ctx()
        objs, props = harness.names(n, m)
        intents, extents = matrices.Relation('Properties', 'Objects', props, objs, harness.sym_rows(cells))
        sp = harness.Spec(cells)
        O = extents.BitSet
        cx.assume(sp.is_objset(x), sp.is_objset(y), sp.closed_o(x), sp.closed_o(y))
        dp = harness.real_kernels(extents)['doubleprime']
        ex, ix = minterp.call(dp, O.fromint(core.SymInt(x)))
        ey, iy = minterp.call(dp, O.fromint(core.SymInt(y)))
        lat = types.SimpleNamespace(supremum=types.SimpleNamespace(_extent=O.supremum))
        a, b = lm.Concept(lat, ex, ix, (), ()), lm.Concept(lat, ey, iy, (), ())
        le = tob(minterp.call(lm.Concept.implies, a, b))
        prop = z3.And(le == harness.subset(x, y), le == harness.subset(iy, ix),
                      # distinct concepts are never mutually <=
                      z3.Implies(z3.And(le, tob(minterp.call(lm.Concept.implies, b, a))), x == y))
        out = {'cex': [], 'queries': 1}
        mdl = cx.check_fresh(z3.Not(prop), want_model=True)
        if mdl is not None:
            out['cex'].append({'kind': 'table:C08', 'objects': list(objs), 'properties': list(props),
                               'table': harness.table_from_model(mdl, cells), 'what': 'intent side of <='})
        if not cx.check_fresh():
            out['inconclusive'] = ['vacuous']
        out['sample'] = {'unit': f'intent side {n}x{m}', 'query': 'x<=y <=> ext(x) in ext(y) <=> int(y) in int(x)',
                         'inputs': 'symbolic table, two symbolic closed extents'}
        return out
    res = common.run_paths(body, prefix, max_depth)
    res['bounds'] = f'all {n}x{m} tables x all pairs of closed extents'
    return res
