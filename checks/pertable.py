"""Per-table level: the real Context(...) and Lattice(...) are executed on a fully symbolic table; the solver-driven
DFS forks wherever the real code inspects the table.  Every feasible path through Lattice construction pins the
whole table (the reduced labelling determines it), so here symbolic execution degenerates to a solver-certified
complete partition of all tables up to the bound; at the end of each path every observable of the property is
compared with the brute-force oracle (batteries.py) on the pinned table."""
import traceback

import z3

from symx import core, harness
from . import common
from . import batteries as B


OBJ_POOL = ['b', 'ab', 'a', ' a', '10', '9', 'a b', 'b ', 'B', 'aa', '1', 'b a']
PROP_POOL = ['q', 'pq', 'p', ' p', '2', '11', 'p q', 'q ', 'Q', 'pp', '0', 'q p']


def awkward_labels(n, m):
    objs = tuple(OBJ_POOL[i] if i < len(OBJ_POOL) else f'o{n - 1 - i:03d}' for i in range(n))
    props = tuple(PROP_POOL[j] if j < len(PROP_POOL) else f'p{m - 1 - j:03d}' for j in range(m))
    assert len(set(objs) | set(props)) == n + m
    return objs, props


def _concretize(ctx):
    """After pinning, every bitset value reachable from the context/lattice has exactly one value under the path
    condition: store it, so that the observation phase runs on the concrete fast paths."""
    def fix(b):
        if isinstance(b, core.SymInt) and not isinstance(b.e, int):
            b.e = b.concretize()
    for vec in (ctx._intents, ctx._extents):
        for b in vec:
            fix(b)
    lat = ctx.__dict__.get('lattice')
    if lat is not None:
        for c in lat._concepts:
            fix(c._extent)
            fix(c._intent)
        for k in lat._mapping:
            fix(k)


def unit(pid, battery_name, args, prefix=(), max_depth=None):
    n, m = args['n'], args['m']
    mode = args.get('kernels', 'contract')
    harness.set_width_for(n + args.get('pad', 0), m + args.get('pad', 0))
    harness.set_kernel_mode(mode)
    concepts = harness.load_concepts()
    _battery = getattr(B, battery_name)
    import inspect as _inspect
    _has_light = 'light' in _inspect.signature(_battery).parameters

    def battery(c, o, light=False):
        # heavy batteries run in full once per path (on the symbolically built context) and in their light form on
        # the other passes
        return _battery(c, o, light=True) if (light and _has_light) else _battery(c, o)
    fixed = args.get('fixed')        # optional concrete skeleton: list of rows with None for symbolic cells
    if fixed is None:
        cells = harness.cell_vars(n, m)
    else:
        cells = [[z3.Bool(f'c_{i}_{j}') if fixed[i][j] is None else bool(fixed[i][j]) for j in range(m)]
                 for i in range(n)]
    symcells = [c for row in cells for c in row if z3.is_expr(c)]
    # labels whose alphabetical order differs from their position in the context and whose VALUES are awkward: prefixes
    # of each other, inner spaces, numeric-looking (10 < 9 as strings), case variants, a label that occurs with another
    # meaning inside a longer one
    objs, props = awkward_labels(n, m)

    def body():
        cx = core.ctx()
        out = {'cex': [], 'queries': 0}
        what = None
        try:
            ctx = concepts.Context(objs, props, harness.sym_rows(cells))
            if args.get('lattice', True):
                ctx.lattice
            vals = core.pin(symcells)
            it = iter(vals)
            table = [[next(it) if z3.is_expr(c) else bool(c) for c in row] for row in cells]
            _concretize(ctx)
            orc = B.Oracle(objs, props, table)
            # other live, used contexts (same labels / other labels) must not disturb this one
            late = concepts.Context(objs, props, [tuple(r) for r in table])   # created before, used after the decoys
            dbat = (lambda c, o: battery(c, o, light=True)) if n * m <= 16 else None
            if dbat is not None and battery_name in ('b11', 'b15', 'b14'):
                dbat.heavy = True
            keep = B.decoys(concepts, objs, props, table, dbat)   # noqa: F841
            fails = [f'(context created before, used after other contexts over the same labels) {f}'
                     for f in battery(late, orc, light=True)]
            fails += battery(ctx, orc)
            # state carried between calls: everything again on the same objects
            fails += [f'(second pass over the same objects) {f}' for f in battery(ctx, orc, light=True)]
            out['queries'] += 3
            if not fails and battery_name not in ('b11', 'b14', 'b15', 'b16'):
                # the same observables on objects obtained indirectly: reloaded from the dict form (stored lattice)
                # and rebuilt from the definition
                loaded = concepts.Context.fromdict(ctx.todict())
                fails += [f'(context reloaded with fromdict(todict()), stored lattice) {f}' for f in battery(loaded, orc, light=True)]
                rebuilt = concepts.Context(*ctx.definition())
                fails += [f'(context rebuilt from its definition) {f}' for f in battery(rebuilt, orc, light=True)]
                out['queries'] += 2
            if fails:
                what = '; '.join(fails[:3])
        except core.Inconclusive as e:
            return {'cex': [], 'queries': 0, 'inconclusive': [f'{type(e).__name__}: {e}']}
        except Exception as e:
            what = f'exception on this path: {type(e).__name__}: {e} @ {traceback.format_exc().strip().splitlines()[-3:-1]}'
            if cx.pinned is None or len(cx.pinned) < len(symcells):
                try:
                    cx.guard.clear()
                    vals = core.pin(symcells)
                except core.Inconclusive as e2:
                    return {'cex': [], 'queries': 0, 'inconclusive': [f'{what}; then {e2}']}
            it = iter([z3.is_true(v) for _, v in cx.pinned][-len(symcells):]) if symcells else iter(())
            table = [[next(it) if z3.is_expr(c) else bool(c) for c in row] for row in cells]
        if what is None:
            errs = cx.failed_obligations()
            if errs:
                what = f'obligation: {errs[0]}'
        if what is not None:
            out['cex'].append({'kind': f'table:{pid}', 'objects': list(objs), 'properties': list(props),
                               'table': table, 'what': what[:600]})
        if what is None:
            out['witness'] = {'kind': f'table:{pid}', 'objects': list(objs), 'properties': list(props), 'table': table}
        out['sample'] = {'unit': args.get('_name'), 'table': [''.join('X' if c else '.' for c in r) for r in table],
                         'decisions': len(cx.decisions)}
        return out
    res = common.run_paths(body, prefix, max_depth)
    res['bounds'] = f'all {n}x{m} tables' if fixed is None else \
        f'{n}x{m} skeleton with {len(symcells)} symbolic cells (all 2^{len(symcells)} fillings)'
    res['stubs'] = ['bitsets package -> symbolic model'] + ([] if mode == 'real' else [f'closure kernels: {mode}'])
    return res
