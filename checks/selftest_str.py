"""Self-test of the symbolic string model (symx/symstr.py) against CPython's str and io.StringIO: every modelled
operation on strings whose characters are solver variables pinned by equality (so that every decision goes through
the solver) must give what the real type gives.  A mismatch makes the C12 check inconclusive."""
import io
import itertools
import random

import z3

from symx import core, symstr as S

ALPHA = ['a', 'B', ' ', '|', '#', '\n', '\r', 'X', '\t', ' ', '\x1c', '\xe9', '1', '.', '!']


def corpus():
    out = ['']
    out += [''.join(t) for k in (1, 2) for t in itertools.product(ALPHA[:9], repeat=k)]
    rnd = random.Random(12)
    out += [''.join(rnd.choice(ALPHA) for _ in range(rnd.randint(3, 7))) for _ in range(160)]
    out += ['  a|b # c\n', '|a|b|', 'o  |X| |', 'B\n\n2\n1\n\na\nb\nc\nX\n.\n', ' 12 ', '3\n4', 'x\r\ny\rz\n']
    return out


def ops(s, sub, with_re=True):
    """(name, thunk) pairs; every thunk works on str and on SymStr"""
    fmt = S.mod
    out = [
        ('strip', lambda: s.strip()), ('strip|', lambda: s.strip('|')), ('lstrip', lambda: s.lstrip()),
        ('rstrip', lambda: s.rstrip()), ('strip| ', lambda: s.strip('| ')),
        ('split', lambda: s.split()), ('split|', lambda: s.split('|')), ('splitnn', lambda: s.split('\n\n')),
        ('split1', lambda: s.split(None, 1)), ('split|1', lambda: s.split('|', 1)), ('rsplit|1', lambda: s.rsplit('|', 1)),
        ('partition#', lambda: s.partition('#')), ('partition|', lambda: s.partition('|')[::2]),
        ('rpartition|', lambda: s.rpartition('|')), ('splitlines', lambda: s.splitlines()),
        ('splitlinesK', lambda: s.splitlines(True)), ('find', lambda: s.find('|')), ('rfind', lambda: s.rfind('a')),
        ('count', lambda: s.count('a')), ('countnn', lambda: s.count('\n\n')), ('starts', lambda: s.startswith('a')),
        ('ends', lambda: s.endswith('|')), ('replace', lambda: s.replace('|', '!!')), ('ljust', lambda: s.ljust(5)),
        ('rjust', lambda: s.rjust(4, '*')), ('center5', lambda: s.center(5)), ('center4', lambda: s.center(4)),
        ('in', lambda: S.contains('|', s)), ('in2', lambda: S.contains(s, 'a|b # X')), ('slice', lambda: s[1:]),
        ('neg', lambda: s[-1:]), ('iter', lambda: list(s)), ('len', lambda: len(s)), ('bool', lambda: bool(s)),
        ('eq', lambda: bool(s == sub)), ('ne', lambda: bool(s != 'a')), ('add', lambda: 'x' + s + 'y'),
        ('mul', lambda: s * 2), ('join', lambda: S.meth('|', 'join', [s, 'q', s])), ('sjoin', lambda: S.join(s, ['1', '2', '3'])),
        ('mod', lambda: fmt('%-4s|%s|%3s', (s, s, s))), ('mod1', lambda: fmt('<%s>', s)) if '%' not in s else ('mod1', lambda: 0),
        ('fstr', lambda: S.fstr(['[', S.fv(s, -1, '<4'), '|', S.fv(s, -1, '>3'), '|', S.fv(s, 115, ''), '|', S.fv(s, -1, '^5'), ']'])),
        ('format', lambda: S.meth('!{}!!{0}'.replace('{0}', '{}'), 'format', s, s)),
        ('re1', lambda: bool(S.RE_SHIM.fullmatch(r'[-=+|\s]+', s))), ('re2', lambda: (lambda m: m and (m.span(), m.group(0)))(S.RE_SHIM.search(r'\|\s*(\w+)', s))),
        ('re3', lambda: bool(S.RE_SHIM.compile(r'^\s*\d+\s*$').match(s))), ('re4', lambda: S.RE_SHIM.split(r'\s*\|\s*', s)),
        ('re5', lambda: S.RE_SHIM.sub(r'[#!].*', '', s)), ('re6', lambda: (lambda m: m and m.groups())(S.RE_SHIM.match(r'([^|]*)\|(.*)$', s))),
        ('re7', lambda: S.RE_SHIM.findall(r'[a-zA-Z]+|\d', s)), ('re8', lambda: bool(S.RE_SHIM.search(r'X\b|\.$', s))),
        ('isspace', lambda: s.isspace()), ('hashX', lambda: {'X': 1, '.': 2, '': 3}.get(s, 0)),
    ]
    return out if with_re else [o for o in out if not o[0].startswith('re')]


def norm(v, mdl):
    if isinstance(v, S.SymStr):
        return S.eval_str(mdl, v)
    if isinstance(v, (list, tuple)):
        return type(v)(norm(x, mdl) for x in v)
    if isinstance(v, core.SymBool):
        return bool(v)
    return v


def attempt(th):
    try:
        return ('ok', th())
    except core.Inconclusive:
        return ('inconclusive', None)
    except Exception as e:
        return ('exc', type(e).__name__)


def string_mismatches(part=0, parts=1):
    mism = []
    strings = corpus()[part::parts]
    for idx, text in enumerate(strings):
        with_re = idx % 8 == 0 or idx > len(strings) - 3

        def body():
            cx = core.ctx()
            sym = S.SymStr([z3.BitVec(f'ch{k}', S.CW) for k in range(len(text))]) if text else ''
            for c, ch in zip(S.chars(sym), text):
                cx.assume(c == ord(ch))
            mdl = cx.check_fresh(want_model=True)
            res = []
            for (name, real), (_, model) in zip(ops(text, text[:1] + 'a', with_re), ops(sym, text[:1] + 'a', with_re)):
                a = attempt(real)
                b = attempt(model)
                b = (b[0], norm(b[1], mdl))
                if a != b and b[0] != 'inconclusive':
                    res.append(f'str model: {name} on {text!r}: real {a!r}, model {b!r}')
            for conv in ('int',):
                a = attempt(lambda: int(text))
                b = attempt(lambda: int(sym))
                if a != b and b[0] != 'inconclusive':
                    res.append(f'str model: int() on {text!r}: real {a!r}, model {b!r}')
            return res
        for val, cx, st in core.explore(body):
            mism += val or []
    return mism, len(strings)


def stringio_mismatches(part=0, parts=1):
    mism = []
    rnd = random.Random(5)
    pieces = ['a', '\n', '\r', '\r\n', 'b c', '|X|\n', '', 'z\r']
    n = 0
    for newline in (None, '', '\n', '\r\n', '\r'):
        for trial in range(40):
            seq = [rnd.choice(pieces) for _ in range(rnd.randint(0, 5))]
            init = rnd.choice(['', 'q\nr\r\ns\rt', 'x'])
            if trial % parts != part:
                continue
            n += 1

            def run(cls, wrap):
                out = []
                w = cls(newline=newline)
                for p in seq:
                    out.append(w.write(wrap(p)))
                out.append(w.getvalue())
                r = cls(wrap(init), newline=newline)
                out.append(list(r))
                r2 = cls(wrap(init), newline=newline)
                out.append(r2.read())
                r3 = cls(wrap(''.join(seq)), **({} if newline is None and trial % 2 else {'newline': newline}))
                out.append(r3.readline())
                out.append(r3.read())
                with cls(wrap(init)) as f:
                    out.append([l for l in f])
                return out
            real = run(io.StringIO, lambda s: s)

            def body():
                cx = core.ctx()
                k = [0]

                def wrap(s):
                    if not s:
                        return s
                    cs = []
                    for ch in s:
                        v = z3.BitVec(f'w{k[0]}', S.CW)
                        k[0] += 1
                        cx.assume(v == ord(ch))
                        cs.append(v)
                    return S.SymStr(cs)
                got = run(S.SymStringIO, wrap)
                mdl = cx.check_fresh(want_model=True)
                return norm(got, mdl)
            for val, cx, st in core.explore(body):
                if val != real:
                    mism.append(f'StringIO model newline={newline!r} writes {seq!r} init {init!r}: real {real!r}, model {val!r}')
    return mism, n


def run(part=0, parts=1):
    core.set_width(10)
    m1, n1 = string_mismatches(part, parts)
    m2, n2 = stringio_mismatches(part, parts)
    return m1 + m2, n1, n2


if __name__ == '__main__':
    import sys
    mm, n1, n2 = run()
    for m in mm[:20]:
        print('SELFTEST MISMATCH', m)
    print(f'string model self-test: {n1} strings x {len(ops("", ""))} operations, {n2} StringIO scenarios, {len(mm)} mismatches')
    sys.exit(3 if mm else 0)
