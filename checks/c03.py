"""C03 -- the lattice contains exactly the formal concepts of the context, once each."""
from . import gen, pertable, c01, _mk

PID = 'C03'


def units(tier, seed):
    if tier == 'quick':
        g = [(n, m) for n in (1, 2, 3) for m in (1, 2, 3, 4, 5, 6)] + [(4, 2), (4, 3)]
        t = _mk.QUICK_TABLES
    else:
        g = [(n, m) for n in (1, 2, 3) for m in range(1, 9)] + [(4, m) for m in range(1, 7)] + [(5, 1), (5, 2), (5, 3), (6, 2)]
        t = _mk.THOROUGH_TABLES      # all 65536 4x4 tables exceeded the 90 min budget of this tier (measured)
    us = gen.kernel_units(g)
    for n, m in g:
        us.append({'name': f'lindig generator {n}x{m}', 'fn': 'unit_lindig', 'args': {'n': n, 'm': m},
                   'split': (10 if n * m >= 16 else 7) if n * m >= 9 else 0})
    for n, m in t:
        us.append({'name': f'Lattice per table {n}x{m}', 'fn': 'unit_table', 'args': {'n': n, 'm': m},
                   'split': 7 if n * m >= 8 else 0})
    us += _mk.inductive_units(tier) + _mk.skeleton_kernel_units(tier, seed) + _mk.skeleton_units(tier, seed)
    return _mk.order(us)


def unit_kernel(args, prefix=(), max_depth=None):
    r = c01.unit_kernel(args, prefix, max_depth)
    for c in r['cex']:
        c['kind'] = f'table:{PID}'
    return r


unit_inductive = _mk.inductive_unit_for(PID)


def unit_lindig(args, prefix=(), max_depth=None):
    return gen.lindig_unit(PID, args, prefix, max_depth)


def unit_table(args, prefix=(), max_depth=None):
    return pertable.unit(PID, 'b03', args, prefix, max_depth)
