"""Small functions exercising the control-flow constructs of the merge-interpreter (self-test: merged symbolic
execution must agree with CPython on every input of a small domain)."""


def f_continue(x, n):
    acc = 0
    i = 0
    while i < n:
        i += 1
        if (x >> i) & 1:
            continue
        acc += i
    return acc


def f_break(x, n):
    acc = 0
    i = 0
    while i < n:
        if (x >> i) & 1:
            break
        acc += 1
        i += 1
    return acc + i


def f_return(x, n):
    if x & 1:
        return 7
    if x & 2:
        if x & 4:
            return 9
        x = x + 1
    return x & 6


def f_for(x, items):
    acc = 0
    for k in items:
        if (x >> k) & 1:
            continue
        if k == 3 and x & 1:
            break
        acc |= 1 << k
    return acc


def f_nested(x, n):
    total = 0
    i = 0
    while i < n:
        j = 0
        while j < 2:
            j += 1
            if (x >> (i + j)) & 1:
                break
            total += 1
        i += 1
        if total > 3:
            return total
    return total + 100


CASES = [(f_continue, 4), (f_break, 4), (f_return, 3), (f_nested, 3)]
