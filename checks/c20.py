"""C20 -- per table: the real Context/Lattice are built on a fully symbolic table (solver-driven partition of all
tables up to the bound); on every path all observables of the property are compared with the oracle (batteries.b20)."""
from . import gen, pertable, _mk

PID = 'C20'


def units(tier, seed):
    return _mk.order(_mk.lattice_level_units(tier, seed))


unit_kernel = _mk.kernel_unit_for(PID)
unit_inductive = _mk.inductive_unit_for(PID)


def unit_table(args, prefix=(), max_depth=None):
    return pertable.unit(PID, 'b20', args, prefix, max_depth)
