"""The plain list-and-set model of a Definition (from the documentation): two ordered name lists (new names appended
in the order given) and a map cell -> truth value.  The truth-value algebra is pluggable: z3 terms for the symbolic
checks, Python bools for replaying counterexamples on the real code (no solver needed there).
Every model function returns (objects, properties, cells, return value, reject) where ``reject`` says that the call
must raise and leave everything unchanged."""


class PyAlg:
    T, F = True, False
    Or = staticmethod(lambda *xs: any(xs))
    And = staticmethod(lambda *xs: all(xs))
    Ne = staticmethod(lambda a, b: bool(a) != bool(b))
    Not = staticmethod(lambda a: not a)


ALG = PyAlg


def _get(cells, o, p):
    return cells.get((o, p), ALG.F)


def _append_new(lst, names):
    out = list(lst)
    for x in names:
        if x not in out:
            out.append(x)
    return out


def m_setitem(O, P, C, o, p, v):
    O2, P2 = _append_new(O, [o]), _append_new(P, [p])
    C2 = {(a, b): _get(C, a, b) for a in O2 for b in P2}
    C2[(o, p)] = v
    return O2, P2, C2, None, False


def m_add_object(O, P, C, o, lst):
    O2, P2 = _append_new(O, [o]), _append_new(P, lst)
    C2 = {(a, b): _get(C, a, b) for a in O2 for b in P2}
    for b in lst:
        C2[(o, b)] = ALG.T
    return O2, P2, C2, None, False


def m_add_property(O, P, C, p, lst):
    P2, O2 = _append_new(P, [p]), _append_new(O, lst)
    C2 = {(a, b): _get(C, a, b) for a in O2 for b in P2}
    for a in lst:
        C2[(a, p)] = ALG.T
    return O2, P2, C2, None, False


def m_set_object(O, P, C, o, lst):
    O2, P2 = _append_new(O, [o]), _append_new(P, lst)
    C2 = {(a, b): _get(C, a, b) for a in O2 for b in P2}
    for b in P2:
        C2[(o, b)] = ALG.T if b in lst else ALG.F
    return O2, P2, C2, None, False


def m_set_property(O, P, C, p, lst):
    P2, O2 = _append_new(P, [p]), _append_new(O, lst)
    C2 = {(a, b): _get(C, a, b) for a in O2 for b in P2}
    for a in O2:
        C2[(a, p)] = ALG.T if a in lst else ALG.F
    return O2, P2, C2, None, False


def m_remove_object(O, P, C, o):
    if o not in O:
        return O, P, C, None, True
    O2 = [a for a in O if a != o]
    return O2, P, {(a, b): C[(a, b)] for a in O2 for b in P}, None, False


def m_remove_property(O, P, C, p):
    if p not in P:
        return O, P, C, None, True
    P2 = [b for b in P if b != p]
    return O, P2, {(a, b): C[(a, b)] for a in O for b in P2}, None, False


def m_rename_object(O, P, C, old, new):
    if old not in O or new in O:
        return O, P, C, None, True
    O2 = [new if a == old else a for a in O]
    return O2, P, {((new if a == old else a), b): v for (a, b), v in C.items()}, None, False


def m_rename_property(O, P, C, old, new):
    if old not in P or new in P:
        return O, P, C, None, True
    P2 = [new if b == old else b for b in P]
    return O, P2, {(a, (new if b == old else b)): v for (a, b), v in C.items()}, None, False


def _move(lst, x, idx):
    out = list(lst)
    i = out.index(x)
    if i != idx:
        out.insert(idx, out.pop(i))
    return out


def m_move_object(O, P, C, o, idx):
    if o not in O:
        return O, P, C, None, True
    return _move(O, o, idx), P, C, None, False


def m_move_property(O, P, C, p, idx):
    if p not in P:
        return O, P, C, None, True
    return O, _move(P, p, idx), C, None, False


def _conflict(O, P, C, O2, P2, C2):
    shared = [(a, b) for a in O for b in P if a in O2 and b in P2]
    return ALG.Or(*[ALG.Ne(C[k], C2[k]) for k in shared]) if shared else ALG.F


def m_union(O, P, C, O2, P2, C2, ignore):
    On, Pn = _append_new(O, O2), _append_new(P, P2)
    Cn = {(a, b): ALG.Or(_get(C, a, b), _get(C2, a, b)) for a in On for b in Pn}
    return On, Pn, Cn, None, (False if ignore else _conflict(O, P, C, O2, P2, C2))


def m_intersection(O, P, C, O2, P2, C2, ignore):
    On, Pn = [a for a in O if a in O2], [b for b in P if b in P2]
    Cn = {(a, b): ALG.And(_get(C, a, b), _get(C2, a, b)) for a in On for b in Pn}
    return On, Pn, Cn, None, (False if ignore else _conflict(O, P, C, O2, P2, C2))


def m_take(O, P, C, objects, properties, reorder):
    unknown = [x for x in (objects or ()) if x not in O] + [x for x in (properties or ()) if x not in P]
    if unknown:
        return O, P, C, None, True
    if reorder:
        On = _append_new([], objects) if objects is not None else list(O)
        Pn = _append_new([], properties) if properties is not None else list(P)
    else:
        On = [a for a in O if objects is None or a in objects]
        Pn = [b for b in P if properties is None or b in properties]
    return On, Pn, {(a, b): C[(a, b)] for a in On for b in Pn}, None, False


def m_transposed(O, P, C):
    return list(P), list(O), {(b, a): v for (a, b), v in C.items()}, None, False


def m_inverted(O, P, C):
    return list(O), list(P), {k: ALG.Not(v) for k, v in C.items()}, None, False


# name -> (method name on Definition, model function, 'edit' | 'binary' | 'derive' | 'derive2')
OPS = {
    'setitem': ('__setitem__', m_setitem, 'edit'),
    'add_object': ('add_object', m_add_object, 'edit'),
    'add_property': ('add_property', m_add_property, 'edit'),
    'set_object': ('set_object', m_set_object, 'edit'),
    'set_property': ('set_property', m_set_property, 'edit'),
    'remove_object': ('remove_object', m_remove_object, 'edit'),
    'remove_property': ('remove_property', m_remove_property, 'edit'),
    'rename_object': ('rename_object', m_rename_object, 'edit'),
    'rename_property': ('rename_property', m_rename_property, 'edit'),
    'move_object': ('move_object', m_move_object, 'edit'),
    'move_property': ('move_property', m_move_property, 'edit'),
    'union_update': ('union_update', m_union, 'binary'),
    'intersection_update': ('intersection_update', m_intersection, 'binary'),
    '__ior__': ('__ior__', m_union, 'binary'),
    '__iand__': ('__iand__', m_intersection, 'binary'),
    'union': ('union', m_union, 'derive2'),
    'intersection': ('intersection', m_intersection, 'derive2'),
    '__or__': ('__or__', m_union, 'derive2'),
    '__and__': ('__and__', m_intersection, 'derive2'),
    'take': ('take', m_take, 'derive'),
    'transposed': ('transposed', m_transposed, 'derive'),
    '__neg__': ('__neg__', m_transposed, 'derive'),
    'inverted': ('inverted', m_inverted, 'derive'),
    '__invert__': ('__invert__', m_inverted, 'derive'),
}


def followups(O, P, FO, FP):
    """one edit per mutator type (applied to source or result after a derivation)"""
    o = O[0] if O else FO[0]
    p = P[0] if P else FP[0]
    return [('add_object', (FO[0], [p, FP[0]])), ('set_property', (p, [FO[0]])), ('setitem', ((o, p), True)),
            ('setitem', ((o, p), False)), ('remove_object', (o,)), ('remove_property', (p,)),
            ('rename_object', (o, FO[0])), ('move_property', (p, 5)), ('remove_empty_objects', ())]


def replay_aliasing(concepts, case):
    """derive on the real code, then edit one side and observe the other"""
    D = concepts.Definition
    O, P = list(case['objects']), list(case['properties'])
    name = case['op'][0]
    args = list(case['op'][1:])
    fails = []

    def build():
        d = D(*triple(O, P, case['true_cells']))
        other = None
        if 'other' in case:
            oc = case['other']
            other = D(*triple(oc['objects'], oc['properties'], oc['true_cells']))
        try:
            if name == 'copy':
                r = d.copy()
            elif other is not None:
                r = getattr(d, name)(other) if name.startswith('__') else getattr(d, name)(other, bool(case.get('ignore')))
                if OPS[name][2] == 'binary':
                    r = d
            else:
                r = getattr(d, OPS[name][0])(*args)
        except (KeyError, ValueError):
            return d, None, other
        return d, r, other
    d, r, o = build()
    if r is None:
        return fails
    pairs = [('source', 'result'), ('result', 'source')]
    if o is not None:
        pairs += [('argument', 'result'), ('result', 'argument')]
        if r is d:       # in-place operation: the receiver is the result
            pairs = [('argument', 'result'), ('result', 'argument')]
    for side, watched in pairs:
        objs0 = {'source': d, 'result': r, 'argument': o}[side]
        base = (list(objs0.objects), list(objs0.properties))
        for fname, fa in followups(base[0], base[1], ['on', 'om'], ['pq', 'pr']):
            d1, r1, o1 = build()
            tgt = {'source': d1, 'result': r1, 'argument': o1}[side]
            oth = {'source': d1, 'result': r1, 'argument': o1}[watched]
            before = (oth.objects, oth.properties, oth.bools)
            try:
                if fname == 'setitem':
                    tgt[fa[0]] = fa[1]
                else:
                    getattr(tgt, fname)(*fa)
            except (KeyError, ValueError):
                pass
            after = (oth.objects, oth.properties, oth.bools)
            if before != after:
                fails.append(f'{name}{args!r} on {O} x {P}: editing the {side} afterwards ({fname}{fa!r}) changed the '
                             f'{watched} from {before} to {after}')
            fresh = D(*after)
            if not (oth == fresh):
                fails.append(f'{name}{args!r}: after editing the {side} ({fname}{fa!r}) the other side differs from a '
                             f'fresh definition built from its own triple')
            # the untouched side must still behave like a fresh definition with the same triple
            outcomes = []
            for x in (oth, fresh):
                try:
                    if fname == 'setitem':
                        x[fa[0]] = fa[1]
                    else:
                        getattr(x, fname)(*fa)
                    outcomes.append((x.objects, x.properties, x.bools))
                except (KeyError, ValueError) as e:
                    outcomes.append(type(e).__name__)
            if outcomes[0] != outcomes[1]:
                fails.append(f'{name}{args!r} on {O} x {P}: after editing the {side} ({fname}{fa!r}) the other side no '
                             f'longer behaves like a fresh definition with its triple: {outcomes[0]} vs {outcomes[1]}')
    return fails


def triple(objects, properties, true_cells):
    tc = {tuple(c) for c in true_cells}
    return list(objects), list(properties), [tuple((o, p) in tc for p in properties) for o in objects]


def replay_edit(concepts, case):
    """Run one operation on the real Definition and compare with the model over Python bools.
    -> list of failures"""
    global ALG
    ALG = PyAlg
    D = concepts.Definition
    O, P = list(case['objects']), list(case['properties'])
    tc = {tuple(c) for c in case['true_cells']}
    C = {(o, p): (o, p) in tc for o in O for p in P}
    d = D(*triple(O, P, tc))
    name = case['op'][0]
    args = list(case['op'][1:])
    fails = []
    if name == 'copy':
        if (d.copy().objects, d.copy().properties, d.copy().bools) != (d.objects, d.properties, d.bools):
            fails.append('copy() differs from its source')
        return fails + replay_aliasing(concepts, case)
    if name in ('construct', 'bools', 'iter', 'eq_fresh', 'getitem'):
        want = (tuple(O), tuple(P), triple(O, P, tc)[2])
        got = (d.objects, d.properties, d.bools)
        if got != want or tuple(d) != want:
            fails.append(f'Definition({O}, {P}, bools) -> {got}')
        if not (d == D(*want)) or d != D(*want):
            fails.append('definition differs from a fresh definition built from its own triple')
        if name == 'getitem':
            o, p = args[0]
            try:
                v = d[o, p]
                if o not in O or p not in P:
                    fails.append(f'd[{o!r}, {p!r}] returned {v!r} for an unknown name')
                elif bool(v) != C[(o, p)]:
                    fails.append(f'd[{o!r}, {p!r}] = {v!r}')
            except KeyError:
                if o in O and p in P:
                    fails.append(f'd[{o!r}, {p!r}] raised KeyError')
        return fails
    if name in ('remove_empty_objects', 'remove_empty_properties'):
        rv = getattr(d, name)()
        if name == 'remove_empty_objects':
            gone = [o for o in O if not any(C[(o, p)] for p in P)]
            On, Pn = [o for o in O if o not in gone], P
        else:
            gone = [p for p in P if not any(C[(o, p)] for o in O)]
            On, Pn = O, [p for p in P if p not in gone]
        exp = (On, Pn, {(o, p): C[(o, p)] for o in On for p in Pn}, gone, False)
        return compare_real(concepts, d, d, exp, None, rv, case)
    method, model, kind = OPS[name]
    other = None
    if kind in ('binary', 'derive2'):
        oc = case['other']
        O2, P2 = list(oc['objects']), list(oc['properties'])
        tc2 = {tuple(c) for c in oc['true_cells']}
        C2 = {(o, p): (o, p) in tc2 for o in O2 for p in P2}
        other = D(*triple(O2, P2, tc2))
        ignore = bool(case.get('ignore', False))
        exp = model(O, P, C, O2, P2, C2, ignore)
        call = (lambda: getattr(d, method)(other, ignore)) if not method.startswith('__') else \
            (lambda: getattr(d, method)(other))
    elif name == 'setitem':
        exp = model(O, P, C, args[0][0], args[0][1], bool(args[1]))
        call = lambda: d.__setitem__(tuple(args[0]), bool(args[1]))
    elif name == 'take':
        exp = model(O, P, C, *args)
        call = lambda: d.take(*args)
    else:
        exp = model(O, P, C, *args)
        call = lambda: getattr(d, method)(*args)
    before = (d.objects, d.properties, d.bools)
    try:
        rv = call()
        raised = None
    except Exception as e:
        rv, raised = None, type(e).__name__
    if kind in ('derive', 'derive2'):
        if raised is None and not isinstance(rv, D):
            return [f'{name} returned {type(rv).__name__}']
        fails += compare_real(concepts, rv if raised is None else d, d, exp, raised, None, case, derived=True)
        if (d.objects, d.properties, d.bools) != before:
            fails.append(f'{name} changed its source: {before} -> {(d.objects, d.properties, d.bools)}')
        if other is not None and (other.objects, other.properties) != (tuple(O2), tuple(P2)):
            fails.append(f'{name} changed its argument')
        if case.get('aliasing'):
            fails += replay_aliasing(concepts, case)
        return fails
    if kind == 'binary' and method.startswith('__') and raised is None and rv is not d:
        fails.append(f'{method} did not return self')
    fails += compare_real(concepts, d, d, exp, raised, rv if kind == 'edit' else None, case)
    if kind == 'binary' and not fails:
        fails += replay_aliasing(concepts, case)
    if other is not None and (other.objects, other.properties, other.bools) != tuple(
            x if i < 2 else x for i, x in enumerate((tuple(O2), tuple(P2), triple(O2, P2, tc2)[2]))):
        fails.append(f'{name} changed its argument')
    return fails


def compare_real(concepts, result, source, exp, raised, rv, case, derived=False):
    On, Pn, Cn, rv_exp, reject = exp
    fails = []
    what = f'{case["op"]} on {case["objects"]} x {case["properties"]} cells {sorted(map(tuple, case["true_cells"]))}'
    if raised is not None:
        if not reject:
            fails.append(f'{what}: raised {raised} but the model accepts the call')
        want = triple(case['objects'], case['properties'], case['true_cells'])
        got = (list(source.objects), list(source.properties), source.bools)
        if got != want:
            fails.append(f'{what}: rejected call changed the definition to {got}')
        if not fails:     # unchanged also means: still behaves like a fresh definition with that triple
            fails += residue_probes(concepts, source, case, what + ' (after the rejected call)')
        return fails
    if reject:
        fails.append(f'{what}: no exception but the model rejects the call')
        return fails
    got = (list(result.objects), list(result.properties), result.bools)
    want = (list(On), list(Pn), [tuple(bool(Cn[(o, p)]) for p in Pn) for o in On])
    if got != want:
        fails.append(f'{what}: result {got}, expected {want}')
    if rv_exp is not None and rv != rv_exp:
        fails.append(f'{what}: returned {rv!r}, expected {rv_exp!r}')
    fresh = concepts.Definition(result.objects, result.properties, result.bools)
    if not (result == fresh) or result != fresh:
        fails.append(f'{what}: result differs from a fresh definition built from its own triple (residue)')
    if len(result.bools) != len(result.objects) or any(len(r) != len(result.properties) for r in result.bools):
        fails.append(f'{what}: bools is not rectangular')
    if not fails:
        fails += residue_probes(concepts, result, case, what)
    return fails


def _names_in(case):
    out = list(case['objects']) + list(case['properties'])
    if 'other' in case:
        out += list(case['other']['objects']) + list(case['other']['properties'])

    def walk(x):
        if isinstance(x, str):
            out.append(x)
        elif isinstance(x, (list, tuple)):
            for y in x:
                walk(y)
    walk(case['op'][1:])
    seen = []
    for x in out + ['on', 'pq']:
        if x not in seen:
            seen.append(x)
    return seen


def residue_probes(concepts, result, case, what):
    """no residue of removed or renamed names may reappear later: after the step the definition must BEHAVE like a
    fresh definition built from its own triple under every single further operation"""
    import copy
    D = concepts.Definition
    fails = []
    names = _names_in(case)
    trip = (result.objects, result.properties, result.bools)
    probes = []
    for x in names:
        probes += [('add_object', (x,)), ('add_property', (x,)), ('remove_object', (x,)), ('remove_property', (x,)),
                   ('set_object', (x, [names[0]])), ('set_property', (x, [names[-1]]))]
        for y in names[:3]:
            probes += [('__getitem__', ((x, y),)), ('__getitem__', ((y, x),)), ('__setitem__', ((x, y), True)),
                       ('rename_object', (y, x)), ('rename_property', (y, x))]
    for fname, fa in probes:
        outcomes = []
        for obj in (copy.deepcopy(result), D(*trip)):
            try:
                rv = getattr(obj, fname)(*fa)
                outcomes.append((rv, obj.objects, obj.properties, obj.bools))
            except (KeyError, ValueError) as e:
                outcomes.append(type(e).__name__)
        if outcomes[0] != outcomes[1]:
            fails.append(f'{what}: afterwards {fname}{fa!r} behaves differently from a fresh definition built from the '
                         f'same triple (residue): {outcomes[0]} vs {outcomes[1]}')
            break
    return fails
