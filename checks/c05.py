"""C05 -- neighbor links are exactly the covering relation.

(a) real lindig.neighbors merge-interpreted on a symbolic table and a symbolic closed extent (one query per shape);
(b) the upper/lower lists accumulated by the real lindig.lattice generator on symbolic tables;
(c) Concept.upper_neighbors/lower_neighbors and Context.neighbors per table."""
from . import gen, pertable, _mk

PID = 'C05'


def units(tier, seed):
    if tier == 'quick':
        nb = [(n, m) for n in range(1, 6) for m in range(1, 6) if abs(n - m) <= 2] + [(6, 6), (6, 3)]
        g = [(n, m) for n in (1, 2, 3) for m in (1, 2, 3, 4)] + [(4, 2)]
        t = _mk.QUICK_TABLES
    else:
        nb = [(n, m) for n in range(1, 8) for m in range(1, 8)] + [(8, 6)]
        g = [(n, m) for n in (1, 2, 3) for m in range(1, 7)] + [(4, m) for m in range(1, 5)] + [(5, 2)]
        t = _mk.THOROUGH_TABLES
    us = gen.kernel_units(set(nb) | set(g))
    for n, m in nb:
        us.append({'name': f'neighbors {n}x{m}', 'fn': 'unit_neighbors', 'args': {'n': n, 'm': m}})
    for n, m in g:
        us.append({'name': f'lindig links {n}x{m}', 'fn': 'unit_lindig', 'args': {'n': n, 'm': m},
                   'split': (10 if n * m >= 16 else 7) if n * m >= 9 else 0})
    us += _mk.table_units(t)
    us += _mk.inductive_units(tier) + _mk.skeleton_kernel_units(tier, seed) + _mk.skeleton_units(tier, seed)
    return _mk.order(us)


unit_kernel = _mk.kernel_unit_for(PID)
unit_inductive = _mk.inductive_unit_for(PID)


def unit_neighbors(args, prefix=(), max_depth=None):
    return gen.neighbors_unit(PID, args, prefix, max_depth)


def unit_lindig(args, prefix=(), max_depth=None):
    return gen.lindig_unit(PID, args, prefix, max_depth)


def unit_table(args, prefix=(), max_depth=None):
    return pertable.unit(PID, 'b05', args, prefix, max_depth)
