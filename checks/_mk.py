"""helpers shared by the check modules that combine kernel units, generator units and per-table units"""
from . import gen, pertable, c01


def kernel_unit_for(pid):
    def unit_kernel(args, prefix=(), max_depth=None):
        r = c01.unit_kernel(args, prefix, max_depth)
        for c in r['cex']:
            c['kind'] = f'table:{pid}'
        return r
    return unit_kernel


def table_units(shapes, name='per table', split_from=8, extra=None):
    us = []
    for n, m in shapes:
        args = {'n': n, 'm': m}
        if extra:
            args.update(extra)
        us.append({'name': f'{name} {n}x{m}', 'fn': 'unit_table', 'args': args, 'split': 7 if n * m >= split_from else 0})
    return us


def order(us):
    us.sort(key=lambda u: -(min(u['args']['n'], 12) ** 2 * min(u['args']['m'], 12)) * (8 if u['fn'] != 'unit_kernel' else 1)
            - (1000 if 'fixed' in u['args'] or u['fn'] == 'unit_inductive' else 0))
    return us


QUICK_TABLES = [(1, 1), (1, 2), (1, 3), (2, 1), (2, 2), (3, 1), (3, 2), (2, 3), (3, 3), (4, 1), (1, 4), (4, 2), (2, 4)]
THOROUGH_TABLES = [(n, m) for n in range(1, 5) for m in range(1, 5) if (n, m) != (4, 4)]   # 4x4 only where noted


# -- wide tables -------------------------------------------------------------------------------------------------

import random


def skeleton(n, m, kind, rnd):
    if kind == 'chain':
        return [[j * n <= i * m for j in range(m)] for i in range(n)]
    if kind == 'nominal':
        return [[i % m == j for j in range(m)] for i in range(n)]
    if kind == 'interval':
        return [[(i >= 3 * j) and (i < n - 2 * j) for j in range(m)] for i in range(n)]
    if kind == 'dup':
        base = [[rnd.random() < 0.5 for j in range(m)] for _ in range(3)]
        return [list(base[i % 3]) for i in range(n)]
    if kind == 'contranominal':
        return [[i != j for j in range(m)] for i in range(n)]
    if kind == 'dupboth':        # duplicate rows AND duplicate columns
        r, c = (n + 1) // 2, (m + 1) // 2
        base = [[rnd.random() < 0.5 for j in range(c)] for i in range(r)]
        return [[base[i // 2][j // 2] for j in range(m)] for i in range(n)]
    if kind == 'fullempty':      # a full row together with an empty column (and a full column, an empty row)
        t = [[rnd.random() < 0.5 for j in range(m)] for i in range(n)]
        for j in range(m):
            t[0][j] = True
            t[n - 1][j] = False
        for i in range(n):
            t[i][m - 1] = False
            t[i][0] = i != n - 1
        t[0][m - 1] = False
        return t
    if kind == 'straddle':       # small extents of equal size, some reaching across the byte / word boundary
        cols = []
        for j in range(m):
            if j % 2 == 0:
                cols.append({j, n - 1 - j // 2})
            else:
                cols.append({j, j + 1})
        return [[i in cols[j] for j in range(m)] for i in range(n)]
    if kind == 'almostfull':     # every column misses exactly one object: equal-size extents of n-1 objects
        return [[i != j for j in range(m)] for i in range(n)]
    if kind == 'nested':         # nested extents of sizes 1, 2, 4, ...
        return [[i < min(n, 2 ** j) for j in range(m)] for i in range(n)]
    return [[rnd.random() < 0.6 for j in range(m)] for i in range(n)]


def skeleton_kernel_units(tier, seed):
    sk = skeleton_units(tier, seed)
    return gen.kernel_units({(u['args']['n'], u['args']['m']) for u in sk if max(u['args']['n'], u['args']['m']) <= 12})


def skeleton_units(tier, seed, extra=None, wide=True, more_specs=()):
    """concrete structured tables wider than a machine word (or with more than 8 rows), k cells symbolic"""
    if tier == 'quick':
        specs = [(9, 3, 'interval', 4), (12, 2, 'nominal', 3), (66, 3, 'straddle', 3), (3, 66, 'random', 3),
                 (5, 5, 'contranominal', 4), (6, 5, 'dupboth', 4), (7, 4, 'chain', 4), (6, 6, 'fullempty', 4),
                 (5, 6, 'random', 4), (8, 4, 'nested', 3), (10, 5, 'straddle', 3), (260, 3, 'almostfull', 2),
                 (4, 18, 'fullempty', 3)]
    else:
        specs = [(5, 5, 'contranominal', 7), (6, 5, 'dupboth', 6), (7, 4, 'chain', 6), (6, 6, 'fullempty', 6),
                 (5, 6, 'random', 7), (8, 4, 'nested', 6), (6, 6, 'random', 6), (7, 5, 'dupboth', 6), (8, 5, 'random', 5),
                 (9, 3, 'interval', 6), (12, 2, 'nominal', 6), (10, 4, 'random', 6), (17, 3, 'dup', 5), (10, 5, 'straddle', 6),
                 (18, 4, 'straddle', 5), (66, 4, 'straddle', 4), (4, 66, 'random', 4), (260, 3, 'almostfull', 3),
                 (4, 18, 'fullempty', 3),
                 (66, 2, 'chain', 6), (66, 2, 'nominal', 6), (2, 66, 'nominal', 6), (2, 66, 'chain', 6),
                 (70, 3, 'interval', 6), (3, 70, 'random', 5), (130, 2, 'dup', 5), (2, 130, 'interval', 5)]
    specs = list(specs) + list(more_specs)
    us = []
    for n, m, kind, k in specs:
        if not wide and max(n, m) > 16:
            continue
        rnd = random.Random(seed * 7919 + n * 131 + m)
        base = skeleton(n, m, kind, rnd)
        # symbolic cells around the machine-word boundary and at the ends
        rows = sorted({0, n - 1, min(n - 1, 63), min(n - 1, 64), n // 2} if n > 2 * m and n > 8 else set(range(n)))
        cols = sorted({0, m - 1, min(m - 1, 63), min(m - 1, 64), m // 2} if m > 2 * n and m > 8 else set(range(m)))
        cand = [(i, j) for i in rows for j in cols]
        pos = rnd.sample(cand, min(k, len(cand)))
        fixed = [[None if (i, j) in pos else bool(base[i][j]) for j in range(m)] for i in range(n)]
        args = {'n': n, 'm': m, 'fixed': fixed, 'skeleton': kind}
        if extra:
            args.update(extra)
        us.append({'name': f'wide skeleton {kind} {n}x{m}', 'fn': 'unit_table', 'args': args, 'split': 4})
    return us


def inductive_units(tier):
    shapes = [(66, 2), (2, 66)] if tier == 'quick' else [(66, 2), (2, 66), (70, 3), (3, 70), (130, 2), (2, 130)]
    us = []
    for n, m in shapes:
        for f in ('prime', 'double', 'doubleprime'):
            for side in ('intension', 'extension'):
                us.append({'name': f'kernel inductive step {n}x{m}', 'fn': 'unit_inductive',
                           'args': {'n': n, 'm': m, 'f': f, 'side': side}})
    return us


def inductive_unit_for(pid):
    def unit_inductive(args, prefix=(), max_depth=None):
        r = c01.unit_inductive(args, prefix, max_depth)
        for c in r['cex']:
            c['kind'] = f'table:{pid}'
            c['probe'] = True
        return r
    return unit_inductive


def lattice_level_units(tier, seed, tables=None, extra=None, split_from=8, wide=True, more_specs=()):
    """kernel == contract for every small shape used, inductive kernel step for the wide widths, per-table units for
    all small tables and for the wide skeletons"""
    t = tables or (QUICK_TABLES if tier == 'quick' else THOROUGH_TABLES)
    sk = skeleton_units(tier, seed, extra=extra, wide=wide, more_specs=more_specs)
    small = {(u['args']['n'], u['args']['m']) for u in sk if max(u['args']['n'], u['args']['m']) <= 12}
    us = gen.kernel_units(set(t) | small) + inductive_units(tier) + table_units(t, split_from=split_from, extra=extra) + sk
    return us
