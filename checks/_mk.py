"""helpers shared by the check modules that combine kernel units, generator units and per-table units"""
from . import gen, pertable, c01


def kernel_unit_for(pid):
    def unit_kernel(args, prefix=(), max_depth=None):
        r = c01.unit_kernel(args, prefix, max_depth)
        for c in r['cex']:
            c['kind'] = f'table:{pid}'
        return r
    return unit_kernel


def table_units(shapes, name='per table', split_from=8, extra=None):
    us = []
    for n, m in shapes:
        args = {'n': n, 'm': m}
        if extra:
            args.update(extra)
        us.append({'name': f'{name} {n}x{m}', 'fn': 'unit_table', 'args': args, 'split': 7 if n * m >= split_from else 0})
    return us


def order(us):
    us.sort(key=lambda u: -(u['args']['n'] ** 2 * u['args']['m']) * (8 if u['fn'] != 'unit_kernel' else 1))
    return us


QUICK_TABLES = [(1, 1), (1, 2), (1, 3), (2, 1), (2, 2), (3, 1), (3, 2), (2, 3), (3, 3)]
THOROUGH_TABLES = [(n, m) for n in range(1, 5) for m in range(1, 5)]
