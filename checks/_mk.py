"""helpers shared by the check modules that combine kernel units, generator units and per-table units"""
from . import gen, pertable, c01


def kernel_unit_for(pid):
    def unit_kernel(args, prefix=(), max_depth=None):
        r = c01.unit_kernel(args, prefix, max_depth)
        for c in r['cex']:
            c['kind'] = f'table:{pid}'
        return r
    return unit_kernel


def table_units(shapes, name='per table', split_from=8, extra=None):
    us = []
    for n, m in shapes:
        args = {'n': n, 'm': m}
        if extra:
            args.update(extra)
        us.append({'name': f'{name} {n}x{m}', 'fn': 'unit_table', 'args': args, 'split': 7 if n * m >= split_from else 0})
    return us


def order(us):
    us.sort(key=lambda u: -(min(u['args']['n'], 12) ** 2 * min(u['args']['m'], 12)) * (8 if u['fn'] != 'unit_kernel' else 1)
            - (1000 if 'fixed' in u['args'] or u['fn'] == 'unit_inductive' else 0))
    return us


QUICK_TABLES = [(1, 1), (1, 2), (1, 3), (2, 1), (2, 2), (3, 1), (3, 2), (2, 3), (3, 3), (4, 1), (1, 4), (4, 2), (2, 4)]
THOROUGH_TABLES = [(n, m) for n in range(1, 5) for m in range(1, 5)]


# -- wide tables -------------------------------------------------------------------------------------------------

import random


def skeleton(n, m, kind, rnd):
    if kind == 'chain':
        return [[j * n <= i * m for j in range(m)] for i in range(n)]
    if kind == 'nominal':
        return [[i % m == j for j in range(m)] for i in range(n)]
    if kind == 'interval':
        return [[(i >= 3 * j) and (i < n - 2 * j) for j in range(m)] for i in range(n)]
    if kind == 'dup':
        base = [[rnd.random() < 0.5 for j in range(m)] for _ in range(3)]
        return [list(base[i % 3]) for i in range(n)]
    return [[rnd.random() < 0.6 for j in range(m)] for i in range(n)]


def skeleton_units(tier, seed, extra=None):
    """concrete structured tables wider than a machine word (or with more than 8 rows), k cells symbolic"""
    if tier == 'quick':
        specs = [(9, 3, 'interval', 4), (12, 2, 'nominal', 3), (66, 2, 'chain', 3), (2, 66, 'nominal', 3)]
    else:
        specs = [(9, 3, 'interval', 6), (12, 2, 'nominal', 6), (10, 4, 'random', 6), (17, 3, 'dup', 5),
                 (66, 2, 'chain', 6), (66, 2, 'nominal', 6), (2, 66, 'nominal', 6), (2, 66, 'chain', 6),
                 (70, 3, 'interval', 6), (3, 70, 'random', 5), (130, 2, 'dup', 5), (2, 130, 'interval', 5)]
    us = []
    for n, m, kind, k in specs:
        rnd = random.Random(seed * 7919 + n * 131 + m)
        base = skeleton(n, m, kind, rnd)
        # symbolic cells around the machine-word boundary and at the ends
        rows = sorted({0, n - 1, min(n - 1, 63), min(n - 1, 64), n // 2} if n > m else set(range(n)))
        cols = sorted({0, m - 1, min(m - 1, 63), min(m - 1, 64), m // 2} if m > n else set(range(m)))
        cand = [(i, j) for i in rows for j in cols]
        pos = rnd.sample(cand, min(k, len(cand)))
        fixed = [[None if (i, j) in pos else bool(base[i][j]) for j in range(m)] for i in range(n)]
        args = {'n': n, 'm': m, 'fixed': fixed, 'skeleton': kind}
        if extra:
            args.update(extra)
        us.append({'name': f'wide skeleton {kind} {n}x{m}', 'fn': 'unit_table', 'args': args, 'split': 4})
    return us


def inductive_units(tier):
    shapes = [(66, 2), (2, 66)] if tier == 'quick' else [(66, 2), (2, 66), (70, 3), (3, 70), (130, 2), (2, 130)]
    us = []
    for n, m in shapes:
        for f in ('prime', 'double', 'doubleprime'):
            for side in ('intension', 'extension'):
                us.append({'name': f'kernel inductive step {n}x{m}', 'fn': 'unit_inductive',
                           'args': {'n': n, 'm': m, 'f': f, 'side': side}})
    return us


def inductive_unit_for(pid):
    def unit_inductive(args, prefix=(), max_depth=None):
        r = c01.unit_inductive(args, prefix, max_depth)
        for c in r['cex']:
            c['kind'] = f'table:{pid}'
            c['probe'] = True
        return r
    return unit_inductive


def lattice_level_units(tier, seed, tables=None, extra=None, split_from=8):
    """kernel == contract for every small shape used, inductive kernel step for the wide widths, per-table units for
    all small tables and for the wide skeletons"""
    t = tables or (QUICK_TABLES if tier == 'quick' else THOROUGH_TABLES)
    us = gen.kernel_units(t) + inductive_units(tier) + table_units(t, split_from=split_from, extra=extra) \
        + skeleton_units(tier, seed, extra=extra)
    return us
