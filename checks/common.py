"""Check runner: unit scheduling over worker processes, decision-prefix splitting, replay of counterexamples on
the real code, known findings, evidence files, exit codes.

exit 0: property held on everything explored (all solver queries unsat / all paths agree with the spec)
exit 1: a counterexample produced by the solver reproduced on the real code: ``VIOLATION property=<id> replay=<path>``
exit 3: inconclusive (solver unknown/timeout, unsupported construct, model self-test failure, or a counterexample
        that does not reproduce on the real code) -- never reported as success, never as a violation
"""
import hashlib
import importlib
import json
import multiprocessing
import os
import subprocess
import sys
import time
import traceback

VERIF = os.path.dirname(os.path.dirname(os.path.abspath(__file__)))
REPO = os.environ.get('VERIF_REPO', '/repo')
PY = '/venv/bin/python'
NPROC = int(os.environ.get('VERIF_NPROC', '16'))
BUDGET_S = float(os.environ.get('VERIF_BUDGET_S', '900'))


def ensure_deps():
    deps = os.path.join(VERIF, '.deps')
    if not os.path.exists(os.path.join(deps, 'z3', '__init__.py')):
        r = subprocess.run(['sh', os.path.join(VERIF, 'setup.sh')], capture_output=True, text=True)
        if r.returncode != 0:
            print('INCONCLUSIVE setup failed:', r.stderr.strip())
            sys.exit(3)
    if deps not in sys.path:
        sys.path.insert(0, deps)
    if VERIF not in sys.path:
        sys.path.insert(0, VERIF)


# -- worker side --------------------------------------------------------------------------------------------

def _worker_init():
    ensure_deps()
    os.environ.setdefault('PYTHONHASHSEED', '0')


def _work(job):
    modname, fn, args, prefix, max_depth = job
    t0 = time.time()
    try:
        ensure_deps()
        from symx import core
        core.STATS.__init__()
        mod = importlib.import_module(modname)
        res = getattr(mod, fn)(dict(args), prefix=tuple(prefix), max_depth=max_depth)
        res.setdefault('inconclusive', [])
        res['stats'] = core.STATS.asdict()
    except BaseException as e:  # harness error: inconclusive, never success
        res = {'paths': 0, 'cex': [], 'queries': 0, 'cuts': [], 'samples': [],
               'inconclusive': [f'{type(e).__name__}: {e}', traceback.format_exc()[-1500:]], 'stats': {}}
    res['wall'] = round(time.time() - t0, 3)
    res['unit'] = args.get('_name', fn)
    return res


def run_paths(body, prefix=(), max_depth=None, max_samples=2, stop_after_cex=None, deadline_s=None):
    """Explore all feasible paths of body() below ``prefix``; body returns a dict
    {'cex': [...], 'queries': int, 'sample': obj|None}.

    stop_after_cex: stop exploring once that many counterexample candidates were found (they are replayed on the
    real code: reproduced -> VIOLATION, not reproduced -> inconclusive; never a silent pass).
    deadline_s: a unit that is still exploring after that many seconds is reported as inconclusive."""
    from symx import core
    out = {'paths': 0, 'cex': [], 'queries': 0, 'cuts': [], 'samples': [], 'inconclusive': [], 'obligations': 0}
    t0 = time.time()
    for val, cx, status in core.explore(body, prefix=prefix, max_depth=max_depth):
        if stop_after_cex and len(out['cex']) >= stop_after_cex:
            out['cut_short'] = True
            break
        if deadline_s and time.time() - t0 > deadline_s:
            out['inconclusive'].append(f'path exploration exceeded {deadline_s} s after {out["paths"]} paths')
            break
        if status == 'cut':
            out['cuts'].append(list(val))
            continue
        out['paths'] += 1
        if val is None:
            continue
        out['cex'].extend(val.get('cex', ()))
        out['queries'] += val.get('queries', 0)
        out['inconclusive'].extend(val.get('inconclusive', ()))
        if val.get('sample') is not None and len(out['samples']) < max_samples:
            out['samples'].append(val['sample'])
        if val.get('witness') is not None and len(out.setdefault('witnesses', [])) < 2:
            out['witnesses'].append(val['witness'])
    return out


def guarded(fn, case=None):
    """Decorator for path bodies.  An Inconclusive raised inside a path is recorded (exit 3) and exploration goes
    on.  Any other exception escaping from the code under test on this path becomes a counterexample candidate
    (``case(model, what)`` builds it from a model of the path condition); it is only reported if it reproduces on the
    real code."""
    from symx import core
    import traceback

    def body():
        try:
            return fn()
        except core.Inconclusive as e:
            return {'cex': [], 'queries': 0, 'inconclusive': [f'{type(e).__name__}: {e}']}
        except Exception as e:
            cx = core.ctx()
            tb = traceback.extract_tb(e.__traceback__)
            where = f'{tb[-1].filename.rsplit("/", 2)[-1]}:{tb[-1].lineno}' if tb else '?'
            what = f'exception on this path: {type(e).__name__}: {e} @ {where}'
            if case is None:
                return {'cex': [], 'queries': 0, 'inconclusive': [what]}
            try:
                del cx.guard[:]
                artefact = [m for m in cx.failed_obligations() if m.startswith('int window')]
                if artefact:
                    # the exception follows an arithmetic result that left the bit-vector window: engine limit
                    return {'cex': [], 'queries': 0, 'inconclusive': [f'{what} after {artefact[0]}']}
                mdl = cx.check_fresh(want_model=True)
            except core.Inconclusive as e2:
                return {'cex': [], 'queries': 0, 'inconclusive': [f'{what}; then {e2}']}
            if mdl is None:
                return {'cex': [], 'queries': 0, 'inconclusive': [what + ' (on an infeasible path)']}
            return {'cex': [case(mdl, what)], 'queries': 0}
    return body


# -- master side --------------------------------------------------------------------------------------------

def merge(total, res):
    for k in ('paths', 'queries'):
        total[k] = total.get(k, 0) + res.get(k, 0)
    total.setdefault('cex', []).extend(res.get('cex', ()))
    total.setdefault('inconclusive', []).extend(f'[{res.get("unit", "?")}] {m}' for m in res.get('inconclusive', ()))
    if len(total.setdefault('samples', [])) < 6:
        total['samples'].extend(res.get('samples', ())[:2])
    if len(total.setdefault('witnesses', [])) < 40:
        total['witnesses'].extend(res.get('witnesses', ())[:2])
    st = total.setdefault('stats', {})
    for k, v in res.get('stats', {}).items():
        if k == 'max_depth':
            st[k] = max(st.get(k, 0), v)
        else:
            st[k] = round(st.get(k, 0) + v, 3)
    for k in ('encoded',):
        if k in res:
            total.setdefault(k, {}).update(res[k])
    for k in ('assumptions', 'stubs'):
        if k in res:
            cur = total.setdefault(k, [])
            for x in res[k]:
                if x not in cur:
                    cur.append(x)
    per = total.setdefault('units', {})
    u = per.setdefault(res.get('unit', '?'), {'paths': 0, 'queries': 0, 'wall': 0.0, 'jobs': 0})
    u['paths'] += res.get('paths', 0)
    u['queries'] += res.get('queries', 0)
    u['wall'] = round(u['wall'] + res.get('wall', 0), 2)
    u['jobs'] += 1
    if 'bounds' in res:
        u['bounds'] = res['bounds']


def run_units(modname, units, nproc=NPROC, budget_s=None):
    """units: list of dicts {'fn': str, 'args': dict, 'split': int}.  Units with split>0 are first explored down
    to that decision depth; every cut-off prefix becomes its own job."""
    total = {}
    t0 = time.time()
    ctx = multiprocessing.get_context('spawn')
    with ctx.Pool(min(nproc, max(1, len(units) * 4)) if any(u.get('split') for u in units)
                  else min(nproc, max(1, len(units))), initializer=_worker_init, maxtasksperchild=40) as pool:
        pending = []
        for u in units:
            args = dict(u['args'])
            args['_name'] = u.get('name', u['fn'])
            split = u.get('split') or None
            pending.append((u, pool.apply_async(_work, ((modname, u['fn'], args, (), split),))))
        second = []
        deadline = t0 + (budget_s or BUDGET_S)

        def collect(ar, label):
            try:
                return ar.get(timeout=max(1.0, deadline - time.time()))
            except multiprocessing.TimeoutError:
                return {'paths': 0, 'cex': [], 'queries': 0, 'cuts': [], 'samples': [], 'stats': {}, 'unit': label,
                        'inconclusive': [f'unit {label!r} did not finish within the time budget of this tier']}
        for u, ar in pending:
            res = collect(ar, u.get('name', u['fn']))
            merge(total, res)
            for pfx in res.get('cuts', ()):
                args = dict(u['args'])
                args['_name'] = u.get('name', u['fn'])
                second.append((args['_name'], pool.apply_async(_work, ((modname, u['fn'], args, tuple(pfx), None),))))
        for label, ar in second:
            merge(total, collect(ar, label))
        pool.terminate()
    total['wall'] = round(time.time() - t0, 2)
    total['jobs'] = len(units) + len(second)
    return total


# -- replay, known findings, evidence -----------------------------------------------------------------------

def load_known():
    p = os.path.join(VERIF, 'known_findings.json')
    if not os.path.exists(p):
        return []
    with open(p) as f:
        return json.load(f).get('findings', [])


def matches_known(case, finding):
    """An open finding lists the exact failing call site + input pattern; anything else is a new violation."""
    m = finding.get('match', {})
    return bool(m) and all(case.get(k) == v for k, v in m.items())


def write_replay(pid, case):
    blob = json.dumps(case, sort_keys=True, default=str)
    h = hashlib.sha256(blob.encode()).hexdigest()[:12]
    d = os.path.join(VERIF, 'replays')
    os.makedirs(d, exist_ok=True)
    path = os.path.join(d, f'{pid}-{h}.json')
    with open(path, 'w') as f:
        json.dump(case, f, indent=1, sort_keys=True, default=str)
    return path


def replay_file(path, timeout=600):
    """Re-execute a counterexample in a fresh interpreter with the real bitsets and the unmodified working tree.
    -> (reproduced: bool|None, output)"""
    env = dict(os.environ)
    env['PYTHONPATH'] = VERIF
    out = ''
    # the real code runs under hash randomisation: a counterexample counts as reproduced if it reproduces under
    # any of a few fixed hash seeds (a violation under some seed is a violation)
    for seed in ('0', '1', '2'):
        env['PYTHONHASHSEED'] = seed
        try:
            r = subprocess.run([PY, '-m', 'checks.replay', path], capture_output=True, text=True, timeout=timeout,
                               cwd=VERIF, env=env)
        except subprocess.TimeoutExpired:
            return None, 'replay timed out'
        out = (r.stdout + r.stderr).strip()
        if r.returncode == 1:
            return True, out
        if r.returncode != 0:
            return None, out
    return False, out


def write_evidence(pid, tier, seed, total, level='model_checking', extra=None, violations=0):
    cov = {
        'states': max(1, total.get('paths', 0)),
        'transitions': max(1, total.get('stats', {}).get('decisions', 0) + total.get('paths', 0)),
        'traces_validated_against_impl': total.get('traces_validated', 0),
        'samples': total.get('samples') or ['(no sample recorded)'],
        'exhaustive': False,
        'paths_explored': total.get('paths', 0),
        'decisions': total.get('stats', {}).get('decisions', 0),
        'forks': total.get('stats', {}).get('forks', 0),
        'property_queries_discharged': total.get('queries', 0),
        'side_condition_obligations_discharged': total.get('stats', {}).get('obligations', 0),
        'solver_calls': total.get('stats', {}).get('checks', 0) + total.get('stats', {}).get('fresh_checks', 0),
        'solver_time_s': total.get('stats', {}).get('tsolve', 0),
        'jobs': total.get('jobs', 0),
        'functions_encoded': total.get('encoded', {}),
        'units': total.get('units', {}),
        'stubs': total.get('stubs', []),
        'inconclusive': total.get('inconclusive', [])[:10],
        'explanation': 'states = feasible paths of the real code explored by the solver-driven DFS (their path '
                       'conditions partition the symbolic input space inside the stated bounds); transitions = '
                       'branch decisions + path ends; every property query is an SMT query over the path condition.',
    }
    if extra:
        cov.update(extra)
    ev = {
        'property_id': pid, 'tier': tier, 'seed': int(seed), 'level': level, 'coverage': cov,
        'assumptions': total.get('assumptions', []),
        'wall_s': total.get('wall', 0.0), 'violations': violations,
    }
    d = os.path.join(VERIF, 'evidence')
    os.makedirs(d, exist_ok=True)
    with open(os.path.join(d, f'{pid}.json'), 'w') as f:
        json.dump(ev, f, indent=1, sort_keys=True, default=str)
    return ev


def finish(pid, tier, seed, total, extra=None, max_replays=6):
    """Replay candidates, consult known findings, write evidence, print verdict, return exit code."""
    cands = []
    seen = set()
    for c in total.get('cex', ()):
        key = json.dumps(c, sort_keys=True, default=str)
        if key not in seen:
            seen.add(key)
            cands.append(c)
    known = load_known()
    violations = []
    known_hits = []
    unreproduced = []
    # Which candidates are replayed one by one: one per table shape first, largest shapes first (size- and
    # width-dependent defects only reproduce on the big shapes; artefacts of the engine tend to flood the small ones),
    # then a spread over the rest.
    def shape(c):
        if 'objects' in c and 'properties' in c:
            return (len(c['objects']), len(c['properties']))
        if 'n' in c:
            return (c['n'], 0)
        return (0, 0)
    max_replays = max(max_replays, 8)
    by_shape = {}
    for c in cands:
        by_shape.setdefault(shape(c), []).append(c)
    chosen = []
    for sh in sorted(by_shape, key=lambda t: -(t[0] * max(t[1], 1) + max(t))):
        if len(chosen) < max_replays - 2 or len(by_shape) <= max_replays:
            chosen.append(by_shape[sh][0])
    rest = [c for c in cands if not any(c is x for x in chosen)]
    if rest and len(chosen) < max_replays:
        step = max(1, len(rest) // (max_replays - len(chosen)))
        chosen += rest[::step][:max_replays - len(chosen)]
    chosen = chosen[:max_replays]
    for c in chosen:
        c = dict(c)
        c['property'] = pid
        path = write_replay(pid, c)
        ok, out = replay_file(path)
        if ok:
            total['traces_validated'] = total.get('traces_validated', 0) + 1
            kf = [k for k in known if k.get('property') == pid and k.get('status') == 'open' and matches_known(c, k)]
            if kf:
                known_hits.append((kf[0], path))
            else:
                violations.append((path, out))
        else:
            unreproduced.append((path, f'[{c.get("what")}] {out}'))
            try:
                os.remove(path)
            except OSError:
                pass
    if cands and not violations and not known_hits and len(cands) > 1:
        # state carried from one object to the next (caches, class-level rebinding) only shows in a history: replay the
        # candidates as ONE sequence of calls in one fresh interpreter, as the exploring worker met them
        seq = {'kind': 'sequence', 'property': pid, 'cases': [dict(c, property=pid) for c in (cands[:60] + cands[60::max(1, len(cands) // 90)])[:150]],
               'what': 'sequence of the counterexample inputs in one process'}
        spath = write_replay(pid, seq)
        ok, out = replay_file(spath)
        if ok:
            violations.append((spath, out))
            unreproduced = []
        else:
            try:
                os.remove(spath)
            except OSError:
                pass
    inconclusive = list(total.get('inconclusive', ()))
    # witnesses: concrete members of explored paths (solver models) are executed on the REAL code with the real
    # bitsets; the real code must agree with the verdict of the symbolic run there
    wit = total.get('witnesses', [])[:24]
    if wit and not violations:
        d = os.path.join(VERIF, 'replays')
        os.makedirs(d, exist_ok=True)
        wpath = os.path.join(d, f'tmp-witness-{pid}-{os.getpid()}.json')
        with open(wpath, 'w') as f:
            json.dump({'kind': 'batch', 'property': pid, 'cases': wit}, f, default=str)
        ok, out = replay_file(wpath)
        try:
            os.remove(wpath)
        except OSError:
            pass
        if ok is False:
            total['traces_validated'] = total.get('traces_validated', 0) + len(wit)
        elif ok:
            # The real code fails on a concrete member of an explored path.  That is a reproduced failure of the
            # implementation (found while validating path witnesses on the real code, not by a solver query):
            # report it, one replay file per failing witness.
            for w in wit:
                w = dict(w, property=pid, what='observables of the real code on a witness of an explored path')
                wpath2 = write_replay(pid, w)
                ok2, out2 = replay_file(wpath2)
                if ok2:
                    violations.append((wpath2, out2 + '\n(found while validating a path witness on the real code)'))
                    if len(violations) >= 3:
                        break
                else:
                    try:
                        os.remove(wpath2)
                    except OSError:
                        pass
            if not violations:
                inconclusive.append('a witness batch failed on the real code but no single witness reproduces: ' + out[-300:])
        elif not cands:
            inconclusive.append('witness validation on the real code did not complete: ' + out[-400:])
    for path, out in unreproduced:
        inconclusive.append(f'counterexample did not reproduce on the real code: {out[:300]}')
    total['inconclusive'] = inconclusive
    write_evidence(pid, tier, seed, total, extra=extra, violations=len(violations))
    for k, path in known_hits:
        print(f'KNOWN-FINDING: property={pid} {k.get("what", "")}')
    st = total.get('stats', {})
    print(f'{pid} tier={tier} paths={total.get("paths", 0)} queries={total.get("queries", 0)} '
          f'obligations={st.get("obligations", 0)} solver_s={st.get("tsolve", 0)} jobs={total.get("jobs", 0)} '
          f'wall={total.get("wall", 0)}s candidates={len(cands)}')
    if violations:
        for path, out in violations:
            print(out[-800:])
            print(f'VIOLATION property={pid} replay={path}')
        return 1
    if inconclusive:
        for m in inconclusive[:8]:
            print('INCONCLUSIVE', m)
        return 3
    print(f'OK property={pid}: held on everything explored')
    return 0
