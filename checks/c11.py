"""C11 -- structured persistence reloads the same context and the same lattice (WITHOUT the pickle sentence).

Per table (solver-driven partition of all tables up to the bound through the real Context/Lattice constructors): todict()
is the documented index encoding; fromdict / fromjson (text, file object, path) / python-literal (string, file) rebuild
an equal context whose stored lattice answers every public query like the recomputed one; raw=True under every
permutation of the stored concept list (<= 5 concepts; generators beyond) and reversed neighbour/index sequences.
Not covered: pickling (C code over the real bitsets class registry; proxies cannot pass through it)."""
from . import gen, pertable, _mk

PID = 'C11'


def units(tier, seed):
    # the 66-wide skeletons are left to the thorough tier here (the persistence code is not width dependent; the
    # kernels are covered at width 66 by the inductive units)
    return _mk.order(_mk.lattice_level_units(tier, seed, wide=(tier != 'quick')))


unit_kernel = _mk.kernel_unit_for(PID)
unit_inductive = _mk.inductive_unit_for(PID)


def unit_table(args, prefix=(), max_depth=None):
    return pertable.unit(PID, 'b11', args, prefix, max_depth)
