"""C17 -- all results are deterministic across processes and hash seeds.

Hash randomisation is modelled as an environment stub: every set/frozenset built in repository code iterates in an
order chosen by the explorer (solver-chosen bounded variables; all k! orders for sets of <= 3 elements, rotations x
reversal beyond).  Each corpus item is explored over all such orders; its complete observable transcript must be the
same on every path.  This quantifies over a superset of what PYTHONHASHSEED / object addresses can produce.  A
difference is replayed literally: the item is run in separate interpreter processes under different hash seeds."""
import json

from symx import core, nondet
from . import common
from . import c17_corpus

PID = 'C17'


def units(tier, seed):
    us = [{'name': f'corpus {name}', 'fn': 'unit_item', 'args': {'item': name, 'n': 1, 'm': 1, 'tier': tier},
           'split': 0}
          for name in c17_corpus.ITEMS]
    us.append({'name': 'literal multi-process run', 'fn': 'unit_literal',
               'args': {'seeds': [0, 1, 2, 3, 4, 5] if tier == 'quick' else list(range(24)), 'n': 1, 'm': 1}})
    return us


def unit_literal(args, prefix=(), max_depth=None):
    """Supplement (sampling, stated as such): sets that are created inside C code -- e.g. ``dict_keys - set`` -- are
    beyond the reach of the load-time transform, so the whole corpus is also run literally in separate interpreter
    processes under a few PYTHONHASHSEED values and the transcripts are compared."""
    import os
    import subprocess
    import sys
    seeds = args['seeds']
    outs = {}
    for s in seeds:
        env = dict(os.environ, PYTHONHASHSEED=str(s), PYTHONPATH=common.VERIF)
        r = subprocess.run([sys.executable, '-m', 'checks.c17_corpus', '--all'], capture_output=True, text=True, env=env,
                           cwd=common.VERIF)
        if r.returncode != 0:
            return {'paths': 0, 'cex': [], 'queries': 0, 'cuts': [], 'samples': [],
                    'inconclusive': [f'literal corpus run failed under PYTHONHASHSEED={s}: {r.stderr[-300:]}']}
        outs[s] = json.loads(r.stdout)
    cex = []
    first = outs[seeds[0]]
    for name in first:
        if any(outs[s][name] != first[name] for s in seeds):
            cex.append({'kind': 'determinism', 'item': name, 'what': f'transcript of {name} differs between hash seeds '
                                                                     f'(literal run)'})
    return {'paths': len(seeds), 'cex': cex, 'queries': len(first) * len(seeds), 'cuts': [],
            'samples': [{'unit': 'literal multi-process run', 'seeds': list(seeds), 'items': len(first)}],
            'inconclusive': [], 'bounds': f'all {len(first)} corpus items in {len(seeds)} separate processes (hash seeds {list(seeds)}): '
                                          f'sampling, supplementary to the order model',
            'stubs': []}


def unit_item(args, prefix=(), max_depth=None):
    name = args['item']
    core.set_width(10)
    nondet.FULL_PERMUTATIONS_UPTO = 4 if args.get('tier') == 'thorough' else 3
    concepts = nondet.load_concepts(common.REPO)
    seen = {}
    pre = c17_corpus.prepare(concepts, name)

    def body():
        tr = c17_corpus.transcript(concepts, name, pre)
        key = json.dumps(tr, sort_keys=True)
        cx = core.ctx()
        seen.setdefault(key, tuple(d[0] for d in cx.decisions))
        # two different transcripts settle the item: stop exploring further orders (the pair is replayed literally)
        return {'cex': [{'differs': True}] if len(seen) > 1 else [], 'queries': 1,
                'sample': {'unit': f'corpus {name}', 'order_choices_on_path': len(cx.decisions),
                           'transcript_head': key[:160]}}
    res = common.run_paths(body, prefix, max_depth, stop_after_cex=1, deadline_s=600)
    res['transcripts'] = {k: list(v) for k, v in seen.items()}
    res['encoded'] = {f'corpus item {name}': 'transcript over set orders'}
    res['bounds'] = (f'item {name}: every iteration order of every set built by repository code (all k! for k<=3, '
                     f'rotations x reversal beyond); sets iterated {nondet.STATS["sets_iterated"]}, '
                     f'largest {nondet.STATS["max_size"]}')
    res['stubs'] = ['set/frozenset in repository code -> NondetSet (explorer-chosen iteration order) via load-time AST '
                    'transform; real bitsets']
    # different prefixes run in different jobs: transcripts are compared by the master (see evidence_extra/finish hook)
    res['cex'] = []
    if len(seen) > 1:
        keys = sorted(seen)
        res['cex'].append({'kind': 'determinism', 'item': name, 'transcript_a': keys[0][:400],
                           'transcript_b': keys[1][:400], 'what': f'transcript of {name} depends on set iteration order'})
    res['transcript_keys'] = sorted(seen)
    if not res['cex'] and name in ('set_object_new', 'ctx_errors', 'lattice_all', 'union_seeds_3'):
        res['witnesses'] = [{'kind': 'determinism', 'item': name, 'seeds': 5}]
    return res
