"""bin/check entry point."""
import argparse
import importlib
import os
import sys

from . import common


def main():
    ap = argparse.ArgumentParser()
    ap.add_argument('pid')
    ap.add_argument('--tier', default=os.environ.get('VERIF_TIER') or 'quick', choices=['quick', 'thorough'])
    ap.add_argument('--replay')
    ap.add_argument('--only', help='run only units whose name contains this substring (developer use)')
    a = ap.parse_args()
    pid = a.pid.upper()
    if a.replay:
        ok, out = common.replay_file(a.replay)
        print(out)
        if ok:
            print(f'VIOLATION property={pid} replay={a.replay}')
            return 1
        return 0 if ok is False else 3
    common.ensure_deps()
    seed = int(os.environ.get('VERIF_SEED') or 0)
    modname = f'checks.{pid.lower()}'
    mod = importlib.import_module(modname)
    units = mod.units(a.tier, seed)
    if a.only:
        units = [u for u in units if a.only in u.get('name', u['fn'])]
    import subprocess
    env = dict(os.environ, PYTHONPATH=os.pathsep.join([os.path.join(common.VERIF, '.deps'), common.VERIF]))
    st = None
    if not os.environ.get('VERIF_SKIP_SELFTEST'):
        st = subprocess.Popen([common.PY, '-m', 'checks.selftest'], stdout=subprocess.PIPE, stderr=subprocess.STDOUT,
                              text=True, cwd=common.VERIF, env=env)
    total = common.run_units(modname, units, budget_s=float(os.environ.get('VERIF_BUDGET_S') or (900 if a.tier == 'quick' else 5400)))
    if st is not None:
        out, _ = st.communicate()
        if st.returncode != 0:
            total.setdefault('inconclusive', []).append('machinery self-test failed: ' + out[-600:])
        else:
            total.setdefault('assumptions', []).append('self-test passed on this run: ' + out.strip()[-200:])
    extra = mod.evidence_extra(a.tier, seed, total) if hasattr(mod, 'evidence_extra') else None
    return common.finish(pid, a.tier, seed, total, extra=extra)


if __name__ == '__main__':
    try:
        code = main()
    except SystemExit:
        raise
    except BaseException as e:      # a crash of the harness is inconclusive, never a verdict
        import traceback
        traceback.print_exc()
        print(f'INCONCLUSIVE harness error: {type(e).__name__}: {e}')
        code = 3
    sys.exit(code)
