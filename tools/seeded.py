"""Developer tool: validate a seeded change produced by an independent sub-agent and run checks against it.
usage: python tools/seeded.py <worktree> <k> [--checks C01,C02] [--tier quick] [--keep]
Confirms in a scratch copy of /repo: tests pass with the change, demo fails with it and passes without; then runs the
checks with VERIF_REPO pointing at the patched copy.  With --keep the change is stored under /verif/seeded/."""
import argparse
import json
import os
import shutil
import subprocess
import sys
import tempfile
import time

HERE = os.path.dirname(os.path.dirname(os.path.abspath(__file__)))


def sh(cmd, **kw):
    return subprocess.run(cmd, shell=True, capture_output=True, text=True, **kw)


def main():
    ap = argparse.ArgumentParser()
    ap.add_argument('worktree')
    ap.add_argument('k')
    ap.add_argument('--checks')
    ap.add_argument('--tier', default='quick')
    ap.add_argument('--keep', action='store_true')
    ap.add_argument('--tag', default='')
    a = ap.parse_args()
    wt, k = a.worktree, a.k
    meta = json.load(open(os.path.join(wt, f'meta{k}.json')))
    pid = meta['property']
    d = tempfile.mkdtemp(prefix='seedrun-', dir='/tmp')
    rec = {'id': f'{pid}-{a.tag}{k}', 'property': pid, 'needs_to_manifest': meta.get('needs_to_manifest')}
    try:
        sh(f'rsync -a --exclude .git --exclude htmlcov --exclude test-output /repo/ {d}/')
        # demos written in a worktree may assert that concepts is imported from that worktree: the scratch copy has
        # another path, so such single-line path assertions are neutralised (the copy is run from its own directory)
        import re
        src = open(os.path.join(wt, f'demo{k}.py')).read()
        src = re.sub(r'(?m)^(\s*)assert [^\n]*__file__[^\n]*/tmp/[^\n]*$', r'\1pass', src)
        open(os.path.join(d, 'demo.py'), 'w').write(src)
        r0 = sh('/venv/bin/python demo.py', cwd=d)
        rec['demo_clean_exit'] = r0.returncode
        rp = sh(f'patch -p1 < {wt}/patch{k}.diff', cwd=d)
        rec['patch_applies'] = rp.returncode == 0
        r1 = sh('/venv/bin/python demo.py', cwd=d)
        rec['demo_patched_exit'] = r1.returncode
        rt = sh('/venv/bin/python -m pytest -q -p no:cacheprovider --no-cov 2>&1 | tail -1', cwd=d)
        rec['tests_patched'] = rt.stdout.strip()
        rec['confirmed'] = bool(rec['patch_applies'] and r0.returncode == 0 and r1.returncode != 0
                                and ' passed' in rt.stdout and 'failed' not in rt.stdout)
        rec['checks'] = {}
        for c in (a.checks.split(',') if a.checks else [pid]):
            t = time.time()
            env = dict(os.environ, VERIF_REPO=d, VERIF_SKIP_SELFTEST='1')
            r = subprocess.run([os.path.join(HERE, 'bin/check'), c, '--tier', a.tier], capture_output=True, text=True,
                               env=env, cwd=HERE)
            lines = r.stdout.splitlines()
            rec['checks'][c] = {'exit': r.returncode, 'violations': sum(l.startswith('VIOLATION') for l in lines),
                                'wall': round(time.time() - t, 1),
                                'detail': [l for l in lines if l.startswith('   ') or 'INCONCLUSIVE' in l][:3]}
        print(json.dumps(rec, indent=1))
        if a.keep and rec['confirmed']:
            dst = os.path.join(HERE, 'seeded', f'{pid}-{a.tag}{k}')
            os.makedirs(dst, exist_ok=True)
            shutil.copy(os.path.join(wt, f'patch{k}.diff'), os.path.join(dst, 'patch.diff'))
            shutil.copy(os.path.join(d, 'demo.py'), os.path.join(dst, 'demo.py'))
            meta['ran'] = {'tests_with_change': rec['tests_patched'], 'demo_exit_with_change': r1.returncode,
                           'demo_exit_without_change': r0.returncode,
                           'checks_quick': {c: {'exit': v['exit'], 'violations': v['violations']}
                                            for c, v in rec['checks'].items()}}
            json.dump(meta, open(os.path.join(dst, 'meta.json'), 'w'), indent=1)
    finally:
        shutil.rmtree(d, ignore_errors=True)
        sh(f'rm -f {HERE}/replays/*.json')


if __name__ == '__main__':
    main()
