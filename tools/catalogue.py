"""Seeded mutants used while developing the checks (each passes the repository's 301 tests unless noted)."""
M = 'concepts/matrices.py'
L = 'concepts/algorithms/lindig.py'
F = 'concepts/algorithms/fcbo.py'
LM = 'concepts/lattice_members.py'
LA = 'concepts/lattices.py'
CX = 'concepts/contexts.py'
DF = 'concepts/definitions.py'
TL = 'concepts/tools.py'
JU = 'concepts/junctors.py'
VZ = 'concepts/visualize.py'
AC = 'concepts/algorithms/common.py'

MUTANTS = [
    {'id': 'kernel-wide-skip', 'expect': ['C01'], 'edits': [(M,
        "                shift = (bitset & -bitset).bit_length() - 1  # trailing zero(s)\n                if not shift:",
        "                shift = (bitset & -bitset).bit_length() - 1  # trailing zero(s)\n                if shift > 60:\n                    shift += 1\n                if not shift:")]},
    {'id': 'orthogonal-drop-conjunct', 'expect': ['C08'], 'edits': [(LM,
        'and meet != self._extent and meet != other._extent', 'and meet != self._extent')]},
    {'id': 'neighbors-drop-minimal', 'expect': ['C03', 'C05'], 'edits': [(L,
        'if extent & ~objects_and_add & minimal:', 'if extent & ~objects_and_add:')]},
    {'id': 'neighbors-keep-minimal', 'expect': ['C05', 'C03'], 'edits': [(L,
        '            minimal &= ~add\n', '            pass\n')]},
    {'id': 'lattice-heap-colex', 'expect': ['C06'], 'edits': [(L,
        'push((n_extent.shortlex(), neighbor))', 'push(((n_extent.count(), n_extent.int), neighbor))')]},
    {'id': 'ctor-ragged-superset', 'expect': ['C19'], 'edits': [(CX,
        "{len(b) for b in bools} != {len(properties)}", "not {len(b) for b in bools} >= {len(properties)}")]},
    {'id': 'fromdict-negative-index', 'expect': ['C19'], 'edits': [(CX,
        "if not result.issubset(indexes):", "if max(result, default=0) >= len(indexes):")]},
    {'id': 'ctor-overlap-first-only', 'expect': ['C19'], 'edits': [(CX,
        "if not set(objects).isdisjoint(properties):", "if objects[0] in properties or properties[0] in objects:")]},
    {'id': 'relations-swap-implication', 'expect': ['C16'], 'edits': [(JU,
        "            left, right = right, left\n", "            pass\n")]},
    {'id': 'def-rename-residue', 'expect': ['C13'], 'edits': [(DF,
        "{(new, p) for p in self._properties\n                  if (old, p) in pairs and not pairs.remove((old, p))}",
        "{(new, p) for p in self._properties\n                  if (old, p) in pairs}")]},
    {'id': 'def-remove-property-residue', 'expect': ['C13'], 'edits': [(DF,
        "        self._pairs.difference_update((o, prop) for o in self._objects)",
        "        self._pairs.difference_update((o, prop) for o in list(self._objects)[1:])")]},
    {'id': 'def-setobject-set-order', 'expect': ['C13', 'C17'], 'edits': [(DF,
        "        properties = tools.Unique(properties)\n", "        properties = set(properties)\n")]},
    {'id': 'def-union-order', 'expect': ['C13'], 'edits': [(DF,
        "        self._objects |= other._objects\n", "        self._objects = other._objects | self._objects\n")]},
    {'id': 'unique-move-forward-only', 'expect': ['C13'], 'edits': [(TL,
        "        if idx != new_index:", "        if idx < new_index or new_index == 0:")]},
    {'id': 'def-intersection-keeps-cells', 'expect': ['C13'], 'edits': [(DF,
        "        self._pairs &= other._pairs\n", "        self._pairs &= (other._pairs | {(o, p) for o, p in self._pairs if o not in other._objects})\n")]},
    {'id': 'def-copy-shares-pairs', 'expect': ['C14'], 'edits': [(DF,
        "        return self._fromargs(self._objects.copy(),\n                              self._properties.copy(),\n                              self._pairs.copy())",
        "        return self._fromargs(self._objects.copy(),\n                              self._properties.copy(),\n                              self._pairs)")]},
    {'id': 'unique-copy-shares-seen', 'expect': ['C14'], 'edits': [(TL,
        "        return self._fromargs(self._seen.copy(), self._items[:])", "        return self._fromargs(self._seen, self._items[:])")]},
    {'id': 'def-take-reorder-ignores-props', 'expect': ['C14'], 'edits': [(DF,
        "            prop = tools.Unique(properties) if properties is not None else self._properties.copy()\n        else:",
        "            prop = self._properties.copy()\n            if properties is not None:\n                prop &= properties\n        else:")]},
    {'id': 'ctx-eq-ignores-properties-order', 'expect': ['C14'], 'edits': [(CX,
        "                and self.properties == other.properties", "                and set(self.properties) == set(other.properties)")]},
    {'id': 'fromlist-lower-shortlex', 'expect': ['C11'], 'edits': [(LA,
        "                c.lower_neighbors = tuple(sorted(lower, key=longlex))\n        else:",
        "                c.lower_neighbors = tuple(sorted(lower, key=shortlex))\n        else:")]},
    {'id': 'fromlist-indexmap-after-sort', 'expect': ['C11'], 'edits': [(LA,
        "            index_map = dict(enumerate(concepts))\n            shortlex = inst._shortlex\n            longlex = inst._longlex\n            concepts.sort(key=shortlex)",
        "            shortlex = inst._shortlex\n            longlex = inst._longlex\n            concepts.sort(key=shortlex)\n            index_map = dict(enumerate(concepts))")]},
    {'id': 'tolist-lower-by-index', 'expect': ['C11'], 'edits': [(LA,
        "tuple(l.index for l in c.lower_neighbors))", "tuple(sorted(l.index for l in c.lower_neighbors)))")]},
    {'id': 'annotate-skip-bottom-objects', 'expect': ['C10', 'C11'], 'edits': [(LA,
        "            extent = context.extension(context.intension([o]), raw=True)\n            c = mapping[extent]\n            if c.objects:",
        "            extent = context.extension(context.intension([o]), raw=True)\n            c = mapping[extent]\n            if not extent & (extent - 1) and len(mapping) > 6:\n                pass\n            if c.objects:")]},
]
