"""Seeded mutants used while developing the checks (each passes the repository's 301 tests unless noted)."""
M = 'concepts/matrices.py'
L = 'concepts/algorithms/lindig.py'
F = 'concepts/algorithms/fcbo.py'
LM = 'concepts/lattice_members.py'
LA = 'concepts/lattices.py'
CX = 'concepts/contexts.py'
DF = 'concepts/definitions.py'
TL = 'concepts/tools.py'
JU = 'concepts/junctors.py'
VZ = 'concepts/visualize.py'
AC = 'concepts/algorithms/common.py'

MUTANTS = [
    {'id': 'kernel-wide-skip', 'expect': ['C01'], 'edits': [(M,
        "                shift = (bitset & -bitset).bit_length() - 1  # trailing zero(s)\n                if not shift:",
        "                shift = (bitset & -bitset).bit_length() - 1  # trailing zero(s)\n                if shift > 60:\n                    shift += 1\n                if not shift:")]},
    {'id': 'orthogonal-drop-conjunct', 'expect': ['C08'], 'edits': [(LM,
        'and meet != self._extent and meet != other._extent', 'and meet != self._extent')]},
    {'id': 'neighbors-drop-minimal', 'expect': ['C03', 'C05'], 'edits': [(L,
        'if extent & ~objects_and_add & minimal:', 'if extent & ~objects_and_add:')]},
    {'id': 'neighbors-keep-minimal', 'expect': ['C05', 'C03'], 'edits': [(L,
        '            minimal &= ~add\n', '            pass\n')]},
    {'id': 'lattice-heap-colex', 'expect': ['C06'], 'edits': [(L,
        'push((n_extent.shortlex(), neighbor))', 'push(((n_extent.count(), n_extent.int), neighbor))')]},
    {'id': 'ctor-ragged-superset', 'expect': ['C19'], 'edits': [(CX,
        "{len(b) for b in bools} != {len(properties)}", "not {len(b) for b in bools} >= {len(properties)}")]},
    {'id': 'fromdict-negative-index', 'expect': ['C19'], 'edits': [(CX,
        "if not result.issubset(indexes):", "if max(result, default=0) >= len(indexes):")]},
    {'id': 'ctor-overlap-first-only', 'expect': ['C19'], 'edits': [(CX,
        "if not set(objects).isdisjoint(properties):", "if objects[0] in properties or properties[0] in objects:")]},
    {'id': 'relations-swap-implication', 'expect': ['C16'], 'edits': [(JU,
        "            left, right = right, left\n", "            pass\n")]},
]
