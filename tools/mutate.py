"""Developer tool (not a registered check): apply catalogue mutants to a scratch copy of /repo, confirm the
repository's own tests still pass, run the named checks against the copy (VERIF_REPO) and report who fires.
usage: python tools/mutate.py [-k substr] [--checks C03,C05] [--tier quick] [--no-tests]"""
import argparse
import json
import os
import shutil
import subprocess
import sys
import tempfile
import time

HERE = os.path.dirname(os.path.dirname(os.path.abspath(__file__)))
sys.path.insert(0, HERE)
from tools.catalogue import MUTANTS  # noqa: E402


def sh(cmd, **kw):
    return subprocess.run(cmd, shell=True, capture_output=True, text=True, **kw)


def main():
    ap = argparse.ArgumentParser()
    ap.add_argument('-k', default='')
    ap.add_argument('--checks')
    ap.add_argument('--tier', default='quick')
    ap.add_argument('--no-tests', action='store_true')
    a = ap.parse_args()
    results = []
    for mut in MUTANTS:
        if a.k not in mut['id']:
            continue
        d = tempfile.mkdtemp(prefix='mut-', dir='/tmp')
        try:
            sh(f'rsync -a --exclude .git --exclude htmlcov --exclude test-output /repo/ {d}/')
            for path, old, new in mut['edits']:
                p = os.path.join(d, path)
                s = open(p).read()
                if s.count(old) != 1:
                    print(f'{mut["id"]}: pattern occurs {s.count(old)} times in {path}')
                    raise SystemExit(2)
                open(p, 'w').write(s.replace(old, new))
            tests = 'skipped'
            if not a.no_tests:
                r = sh('/venv/bin/python -m pytest -q -p no:cacheprovider -x --no-cov 2>&1 | tail -3', cwd=d)
                tests = 'pass' if ' passed' in r.stdout and 'failed' not in r.stdout else 'FAIL ' + r.stdout[-200:]
            checks = a.checks.split(',') if a.checks else mut['expect']
            row = {'id': mut['id'], 'tests': tests, 'checks': {}}
            for c in checks:
                t = time.time()
                env = dict(os.environ, VERIF_REPO=d, VERIF_SKIP_SELFTEST='1')
                r = subprocess.run([os.path.join(HERE, 'bin/check'), c, '--tier', a.tier], capture_output=True,
                                   text=True, env=env, cwd=HERE)
                viol = [l for l in r.stdout.splitlines() if l.startswith('VIOLATION')]
                row['checks'][c] = {'exit': r.returncode, 'violations': len(viol), 'wall': round(time.time() - t, 1),
                                    'tail': r.stdout.strip().splitlines()[-3:] if r.returncode not in (0, 1) else
                                    [l for l in r.stdout.splitlines() if 'REPRODUCED' in l or l.startswith('   ')][:3]}
            results.append(row)
            print(json.dumps(row), flush=True)
        finally:
            shutil.rmtree(d, ignore_errors=True)
            sh(f'rm -f {HERE}/replays/*.json')
    caught = sum(1 for r in results if any(v['exit'] == 1 for v in r['checks'].values()))
    print(f'{caught}/{len(results)} mutants caught')


if __name__ == '__main__':
    main()
