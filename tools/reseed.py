"""Developer tool: re-run the quick check of every kept seeded change (seeded/<id>/) against a patched scratch copy
and refresh meta.json['ran'].  usage: python tools/reseed.py [-k substr] [--tier quick]"""
import argparse
import json
import os
import shutil
import subprocess
import tempfile
import time

HERE = os.path.dirname(os.path.dirname(os.path.abspath(__file__)))


def sh(cmd, **kw):
    return subprocess.run(cmd, shell=True, capture_output=True, text=True, **kw)


def main():
    ap = argparse.ArgumentParser()
    ap.add_argument('-k', default='')
    ap.add_argument('--tier', default='quick')
    a = ap.parse_args()
    rows = []
    for name in sorted(os.listdir(os.path.join(HERE, 'seeded'))):
        sd = os.path.join(HERE, 'seeded', name)
        if a.k not in name or not os.path.isfile(os.path.join(sd, 'patch.diff')):
            continue
        meta = json.load(open(os.path.join(sd, 'meta.json')))
        pid = meta['property']
        d = tempfile.mkdtemp(prefix='seedrun-', dir='/tmp')
        try:
            sh(f'rsync -a --exclude .git --exclude htmlcov --exclude test-output /repo/ {d}/')
            shutil.copy(os.path.join(sd, 'demo.py'), os.path.join(d, 'demo.py'))
            r0 = sh('/venv/bin/python demo.py', cwd=d)
            rp = sh(f'patch -p1 < {sd}/patch.diff', cwd=d)
            r1 = sh('/venv/bin/python demo.py', cwd=d)
            rt = sh('/venv/bin/python -m pytest -q -p no:cacheprovider --no-cov 2>&1 | tail -1', cwd=d)
            t = time.time()
            env = dict(os.environ, VERIF_REPO=d, VERIF_SKIP_SELFTEST='1')
            r = subprocess.run([os.path.join(HERE, 'bin/check'), pid, '--tier', a.tier], capture_output=True, text=True,
                               env=env, cwd=HERE)
            lines = r.stdout.splitlines()
            first = next((l.strip() for l in lines if l.startswith('   ')), '')
            meta['ran'] = {'tests_with_change': rt.stdout.strip(), 'demo_exit_with_change': r1.returncode,
                           'demo_exit_without_change': r0.returncode, 'patch_applies': rp.returncode == 0,
                           f'check_{a.tier}': {'property': pid, 'exit': r.returncode,
                                               'violations': sum(l.startswith('VIOLATION') for l in lines),
                                               'wall_s': round(time.time() - t, 1), 'first_failure_reported': first[:300]}}
            meta['ran'].pop('checks_quick', None)
            json.dump(meta, open(os.path.join(sd, 'meta.json'), 'w'), indent=1)
            rows.append((name, r.returncode, round(time.time() - t, 1)))
            print(name, 'exit', r.returncode, 'demo', r0.returncode, r1.returncode, rt.stdout.strip()[:30], first[:120], flush=True)
        finally:
            shutil.rmtree(d, ignore_errors=True)
            sh(f'rm -f {HERE}/replays/*.json')
    caught = sum(1 for _, e, _ in rows if e == 1)
    print(f'{caught}/{len(rows)} seeded changes reported as VIOLATION by the {a.tier} check of their property')


if __name__ == '__main__':
    main()
