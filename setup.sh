#!/bin/sh
# Offline setup: install z3-solver (pure wheel from the local wheelhouse) next to the framework.
set -e
cd "$(dirname "$0")"
if [ ! -f .deps/z3/__init__.py ]; then
  rm -rf .deps
  PIP_NO_INDEX=1 /venv/bin/python -m pip install --quiet --no-index --find-links /opt/veriftools/wheels \
      --target .deps z3-solver >/dev/null 2>&1 || { echo "setup: cannot install z3-solver from wheelhouse" >&2; exit 3; }
fi
/venv/bin/python -c "import sys; sys.path.insert(0, '.deps'); import z3; print('z3', z3.get_version_string())"
